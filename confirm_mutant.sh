#!/bin/bash
# usage: confirm_mutant.sh <property id> <agent worktree>  -- confirms a sub-agent's mutant and files it under /verif/seeded/<id>/
ID="$1"; WT="$2"; TAG="${3:-$ID}"
cd "$WT" || exit 2
export CARGO_NET_OFFLINE=true
P="mutant/patch.diff"
[ -f "$P" ] || { echo "no patch"; exit 2; }
git checkout -q -- src 2>/dev/null; git apply "$P" || { echo "patch does not apply"; exit 2; }
echo "== suite with change"
SUITE="$(cargo nextest run --workspace --no-fail-fast --test-threads 8 --offline -E 'not test(mutant_demo) and not binary(mutant_demo)' 2>&1 | grep -E "Summary|FAIL \[" | sort -u | head -8)"
echo "$SUITE"
echo "== demo with change (3 runs)"
WITH=""; for i in 1 2 3; do if timeout 600 cargo test --offline --test mutant_demo >/tmp/confirm-$TAG-with-$i.log 2>&1; then WITH="$WITH pass"; else WITH="$WITH FAIL"; fi; done; echo "$WITH"
git apply -R "$P"
echo "== demo without change (3 runs)"
WITHOUT=""; for i in 1 2 3; do if timeout 600 cargo test --offline --test mutant_demo >/tmp/confirm-$TAG-without-$i.log 2>&1; then WITHOUT="$WITHOUT pass"; else WITHOUT="$WITHOUT FAIL"; fi; done; echo "$WITHOUT"
git apply "$P"
echo "RESULT $TAG suite=[$(echo "$SUITE" | grep Summary)] with=[$WITH] without=[$WITHOUT]"
