#!/bin/bash
# usage: mutant_test.sh <name> <patch.diff> <scale> <prop> [prop...]
# applies the patch to a scratch worktree of /repo's HEAD, runs the given checks against it, removes the worktree
VERIF="$(cd "$(dirname "${BASH_SOURCE[0]}")" && pwd)"
NAME="$1"; PATCH="$2"; SCALE="$3"; shift 3
WT="/tmp/mt-$NAME"
git -C /repo worktree remove --force "$WT" >/dev/null 2>&1
git -C /repo worktree add -f "$WT" HEAD >/dev/null 2>&1 || { echo "worktree failed"; exit 2; }
if ! git -C "$WT" apply "$PATCH"; then echo "patch does not apply"; git -C /repo worktree remove --force "$WT"; exit 2; fi
BIN="$("$VERIF/build.sh" "$WT" 2>/tmp/mt-$NAME.build.log | tail -1)"
[ -x "$BIN" ] || { echo "build failed"; tail -20 /tmp/mt-$NAME.build.log; exit 2; }
VR="/tmp/vr-mt-$NAME"; mkdir -p "$VR"; cp "$VERIF/known_findings.json" "$VR/"
for P in "$@"; do
  OUT="$("$BIN" check --prop "$P" --tier quick --scale "$SCALE" --minimise-secs 20 ${DESIM_WORKERS:+--workers $DESIM_WORKERS} --verif-root "$VR" 2>/dev/null | grep -E "^VIOLATION|^  C[0-9]+ \[|^property|HARNESS|CRASH" | cut -c1-400)"
  if echo "$OUT" | grep -q "^VIOLATION"; then echo "[$NAME] $P: DETECTED"; else echo "[$NAME] $P: missed"; fi
  echo "$OUT" | sed 's/^/      /'
done
KEY="alt-$(echo -n "$WT" | md5sum | cut -c1-10)"
rm -rf "$VERIF/target/build-$KEY" "$VERIF/target/ws-$KEY"
git -C /repo worktree remove --force "$WT" >/dev/null 2>&1
