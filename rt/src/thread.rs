//! Model of the parts of `std::thread` that desync uses.

use crate::kernel::{self, TaskId};
use std::cell::UnsafeCell;
use std::sync::Arc;

#[derive(Clone, Debug)]
pub struct Thread {
    id: TaskId,
}

impl Thread {
    pub fn unpark(&self) {
        kernel::unpark(self.id);
    }
    pub fn task_id(&self) -> TaskId {
        self.id
    }
}

pub fn current() -> Thread {
    Thread { id: kernel::current() }
}

pub fn park() {
    kernel::park();
}

pub fn yield_now() {
    kernel::yield_point();
}

pub fn panicking() -> bool {
    kernel::panicking()
}

struct Slot<T>(UnsafeCell<Option<std::thread::Result<T>>>);
unsafe impl<T: Send> Send for Slot<T> {}
unsafe impl<T: Send> Sync for Slot<T> {}

pub struct JoinHandle<T> {
    id: TaskId,
    slot: Arc<Slot<T>>,
}

unsafe impl<T> Send for JoinHandle<T> {}
unsafe impl<T> Sync for JoinHandle<T> {}

impl<T> JoinHandle<T> {
    pub fn join(self) -> std::thread::Result<T> {
        kernel::join(self.id);
        unsafe { (*self.slot.0.get()).take() }.expect("joined thread left no result")
    }

    pub fn is_finished(&self) -> bool {
        kernel::is_finished(self.id)
    }

    pub fn thread(&self) -> Thread {
        Thread { id: self.id }
    }
}

impl<T> std::fmt::Debug for JoinHandle<T> {
    fn fmt(&self, f: &mut std::fmt::Formatter<'_>) -> std::fmt::Result {
        write!(f, "JoinHandle({})", self.id)
    }
}

#[derive(Debug, Default)]
pub struct Builder {
    name: Option<String>,
}

impl Builder {
    pub fn new() -> Builder {
        Builder { name: None }
    }

    pub fn name(mut self, name: String) -> Builder {
        self.name = Some(name);
        self
    }

    pub fn stack_size(self, _size: usize) -> Builder {
        self
    }

    pub fn spawn<F, T>(self, f: F) -> std::io::Result<JoinHandle<T>>
    where
        F: FnOnce() -> T + Send + 'static,
        T: Send + 'static,
    {
        let slot: Arc<Slot<T>> = Arc::new(Slot(UnsafeCell::new(None)));
        let slot2 = slot.clone();
        let id = kernel::spawn_task(self.name.unwrap_or_else(|| "thread".to_string()), move || {
            let r = kernel::catch_unwind(f);
            unsafe { *slot2.0.get() = Some(r) };
        });
        // the new thread may run before the spawner continues
        kernel::point();
        Ok(JoinHandle { id, slot })
    }
}

pub fn spawn<F, T>(f: F) -> JoinHandle<T>
where
    F: FnOnce() -> T + Send + 'static,
    T: Send + 'static,
{
    Builder::new().spawn(f).unwrap()
}

/// Harness threads: not `Send`-constrained, named.
pub fn spawn_named<F, T>(name: &str, f: F) -> JoinHandle<T>
where
    F: FnOnce() -> T + 'static,
    T: 'static,
{
    let slot: Arc<Slot<T>> = Arc::new(Slot(UnsafeCell::new(None)));
    let slot2 = slot.clone();
    let id = kernel::spawn_task(name.to_string(), move || {
        let r = kernel::catch_unwind(f);
        unsafe { *slot2.0.get() = Some(r) };
    });
    JoinHandle { id, slot }
}
