//! Runtime seam for the deterministic simulation of `desync`.
//! With `--cfg logicalshift_desync_verif` desync's `use std::sync::*`, `std::thread`,
//! `std::sync::mpsc::*`, `lazy_static!` and initial pool size come from here.

pub mod kernel;
pub mod statics;
pub mod strategy;
pub mod sync;
pub mod thread;

/// Replaces `max(8, 2*num_cpus)`: the configured maximum of the run, so that a pool of
/// maximum 1..3 grows lazily exactly as the shipped pool of maximum 32 does.
pub fn initial_max_threads() -> usize {
    kernel::with(|k| k.initial_max_threads).unwrap_or(0)
}
