//! Per-run replacement for `lazy_static!`: each simulated world gets fresh globals,
//! created on first use inside the run and torn down (in reverse creation order)
//! by the controller while scheduling still works.  Leftovers of an abandoned
//! run are leaked, never dropped.

use crate::kernel::{self, StaticEntry};

unsafe fn drop_box<T>(p: *mut ()) {
    drop(Box::from_raw(p as *mut T));
}

pub fn get_or_init<T: 'static>(key: usize, init: impl FnOnce() -> T) -> &'static T {
    let found = kernel::with(|k| k.statics.iter().find(|e| e.key == key).map(|e| e.ptr));
    match found {
        None => panic!("desync global used outside a simulated run"),
        Some(Some(p)) => unsafe { &*(p as *const T) },
        Some(None) => {
            // not holding any kernel borrow while the initialiser runs (it may nest)
            let v = Box::into_raw(Box::new(init()));
            kernel::with(|k| k.statics.push(StaticEntry { key, ptr: v as *mut (), drop_fn: drop_box::<T> }));
            unsafe { &*v }
        }
    }
}

/// Drops the run's globals, newest first.  Must be called from inside the run.
pub fn teardown() {
    loop {
        let e = kernel::with(|k| k.statics.pop()).flatten();
        match e {
            Some(e) => unsafe { (e.drop_fn)(e.ptr) },
            None => break,
        }
    }
}

pub fn count() -> usize {
    kernel::with(|k| k.statics.len()).unwrap_or(0)
}

#[macro_export]
macro_rules! lazy_static {
    () => {};
    ($(#[$attr:meta])* static ref $N:ident : $T:ty = $e:expr; $($rest:tt)*) => {
        $crate::__lazy_static_one!($(#[$attr])* () $N : $T = $e);
        $crate::lazy_static!($($rest)*);
    };
    ($(#[$attr:meta])* pub static ref $N:ident : $T:ty = $e:expr; $($rest:tt)*) => {
        $crate::__lazy_static_one!($(#[$attr])* (pub) $N : $T = $e);
        $crate::lazy_static!($($rest)*);
    };
}

#[macro_export]
#[doc(hidden)]
macro_rules! __lazy_static_one {
    ($(#[$attr:meta])* ($($vis:tt)*) $N:ident : $T:ty = $e:expr) => {
        #[allow(non_camel_case_types, missing_debug_implementations, dead_code)]
        $(#[$attr])*
        $($vis)* struct $N { __private: () }
        #[allow(dead_code)]
        $($vis)* static $N: $N = $N { __private: () };
        impl ::std::ops::Deref for $N {
            type Target = $T;
            fn deref(&self) -> &$T {
                static KEY: ::std::sync::atomic::AtomicU8 = ::std::sync::atomic::AtomicU8::new(0);
                fn __init() -> $T { $e }
                $crate::statics::get_or_init::<$T>(&KEY as *const ::std::sync::atomic::AtomicU8 as usize, __init)
            }
        }
    };
}
