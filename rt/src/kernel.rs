//! Deterministic single-OS-thread kernel: tasks are stackful coroutines, every
//! synchronisation operation is a scheduling point, and a `Strategy` decides who
//! runs next.  One seed (held by the strategy) decides everything.

use corosensei::stack::DefaultStack;
use corosensei::{Coroutine, CoroutineResult, Yielder};
use std::cell::UnsafeCell;

pub type TaskId = usize;

const STACK_SIZE: usize = 256 * 1024;

#[derive(Clone, Copy, PartialEq, Eq, Debug)]
pub enum Wait {
    Mutex(usize),
    Condvar(usize),
    Park,
    Recv(usize),
    Join(TaskId),
    Quiesce,
    Trigger,
}

#[derive(Clone, Copy, PartialEq, Eq, Debug)]
pub enum TState {
    Runnable,
    Blocked(Wait),
    Finished,
}

/// Kinds of decision a strategy is asked for.
#[derive(Clone, Copy, PartialEq, Eq, Debug)]
pub enum DKind {
    /// which task runs next (options are task ids)
    Task,
    /// which condvar waiter `notify_one` wakes (options are 0..n)
    Notify,
    /// does this `Condvar::wait` return spuriously
    SpuriousCv,
    /// does this `park` return spuriously
    SpuriousPark,
    /// harness-level coin (fault plans decided at run time)
    Harness,
}

pub struct Pick<'a> {
    pub decision: u64,
    pub step: u64,
    pub kind: DKind,
    /// the task that reached the scheduling point, if it is still runnable
    pub current: Option<TaskId>,
    pub options: &'a [usize],
    /// index into `options` of the default choice (current if runnable, else lowest id)
    pub default: usize,
}

pub trait Strategy {
    /// returns an index into `p.options`
    fn pick(&mut self, p: &Pick) -> usize;
    /// returns whether an optional event (probability permille/1000) happens
    fn chance(&mut self, decision: u64, kind: DKind, permille: u32) -> bool;
    fn on_spawn(&mut self, _t: TaskId) {}
}

type Coro = Coroutine<(), (), (), DefaultStack>;

pub struct Task {
    coro: Option<Coro>,
    yielder: *const Yielder<(), ()>,
    pub state: TState,
    pub name: String,
    park_token: bool,
    pub panicking: u32,
    pub pool: bool,
    pub points: u64,
    /// number of times this task actually blocked in Condvar::wait / park / recv / join
    pub cv_blocks: u64,
    pub park_blocks: u64,
    pub last_panic: Option<String>,
    pub panics: u32,
}

#[derive(Clone, Debug)]
pub struct TaskInfo {
    pub id: TaskId,
    pub name: String,
    pub state: TState,
    pub points: u64,
    pub panics: u32,
    pub last_panic: Option<String>,
}

#[derive(Clone, Copy, PartialEq, Eq, Debug)]
pub enum Outcome {
    /// every task ran to its end
    Completed,
    /// nothing runnable, somebody still blocked and nobody waiting for quiescence
    Stuck,
    /// step cap reached: inconclusive
    StepCap,
    /// the harness asked for the run to be abandoned (after recording why)
    Aborted,
}

#[derive(Clone, Debug, Default)]
pub struct Counters {
    pub steps: u64,
    pub decisions: u64,
    pub preemptions: u64,
    pub spurious_cv: u64,
    pub spurious_park: u64,
    pub notify_picks: u64,
    pub harness_coins: u64,
    pub cv_waits: u64,
    pub parks: u64,
    pub lock_contended: u64,
    pub pool_spawned: u64,
    pub pool_exited: u64,
    pub pool_max_live: u64,
    pub tasks_spawned: u64,
    pub quiescences: u64,
    pub sweep_fired: u64,
    /// value of `steps` when the latest fault (spurious return, harness coin that came up, noted environment event) was injected
    pub last_fault_step: u64,
}

pub struct RunResult {
    pub outcome: Outcome,
    pub counters: Counters,
    /// decisions that differ from the default policy: (decision index, value)
    pub deviations: Vec<(u64, u32)>,
    /// rolling hash of every decision taken: identifies the interleaving
    pub sig: u64,
    pub tasks: Vec<TaskInfo>,
    pub sweep_points: u64,
}

struct Sweep {
    victim: Option<TaskId>,
    count: u64,
    fire_at: u64,
    fired: bool,
    injector: Option<TaskId>,
    injecting: bool,
}

pub struct StaticEntry {
    pub key: usize,
    pub ptr: *mut (),
    pub drop_fn: unsafe fn(*mut ()),
}

pub struct Kernel {
    pub tasks: Vec<Task>,
    current: Option<TaskId>,
    next: Option<TaskId>,
    strategy: Box<dyn Strategy>,
    pub c: Counters,
    step_cap: u64,
    abort: Option<Outcome>,
    deviations: Vec<(u64, u32)>,
    sig: u64,
    sweep: Sweep,
    pub statics: Vec<StaticEntry>,
    pub initial_max_threads: usize,
    pub spurious_cv_permille: u32,
    pub faults_off: bool,
    /// the task at the current scheduling point gives way: somebody else runs if anybody else can
    yielding: bool,
    pub spurious_park_permille: u32,
    spawn_observer: Option<Box<dyn FnMut(&str, usize)>>,
    pub event_seq: u64,
    opts: Vec<usize>,
    /// while set, the current task keeps running as long as it is runnable
    hold: bool,
}

thread_local! {
    static KERNEL: UnsafeCell<*mut Kernel> = const { UnsafeCell::new(std::ptr::null_mut()) };
    static STACKS: UnsafeCell<Vec<DefaultStack>> = const { UnsafeCell::new(Vec::new()) };
}

#[inline]
fn kptr() -> *mut Kernel {
    KERNEL.with(|k| unsafe { *k.get() })
}

/// Access to the kernel of the run executing on this OS thread, if any.
#[inline]
pub fn with<R>(f: impl FnOnce(&mut Kernel) -> R) -> Option<R> {
    let p = kptr();
    if p.is_null() {
        None
    } else {
        Some(f(unsafe { &mut *p }))
    }
}

/// True when called from inside a simulated task.
#[inline]
pub fn in_sim() -> bool {
    let p = kptr();
    !p.is_null() && unsafe { (*p).current.is_some() }
}

#[inline]
pub fn current() -> TaskId {
    let p = kptr();
    assert!(!p.is_null(), "not inside a simulation");
    unsafe { (*p).current.expect("not inside a simulated task") }
}

pub struct RunConfig {
    pub step_cap: u64,
    pub initial_max_threads: usize,
    pub spurious_cv_permille: u32,
    pub spurious_park_permille: u32,
    /// fire the sweep injection when the victim reaches this scheduling point after its mark
    pub sweep_fire_at: Option<u64>,
}

impl Default for RunConfig {
    fn default() -> Self {
        RunConfig { step_cap: 30_000, initial_max_threads: 2, spurious_cv_permille: 0, spurious_park_permille: 0, sweep_fire_at: None }
    }
}

fn take_stack() -> DefaultStack {
    STACKS.with(|s| unsafe { (*s.get()).pop() }).unwrap_or_else(|| DefaultStack::new(STACK_SIZE).expect("stack"))
}

fn give_stack(st: DefaultStack) {
    STACKS.with(|s| unsafe { (*s.get()).push(st) });
}

static HOOK: std::sync::Once = std::sync::Once::new();

fn install_panic_hook() {
    HOOK.call_once(|| {
        let default = std::panic::take_hook();
        std::panic::set_hook(Box::new(move |info| {
            let p = kptr();
            if !p.is_null() {
                let k = unsafe { &mut *p };
                if let Some(cur) = k.current {
                    let msg = if let Some(s) = info.payload().downcast_ref::<&str>() {
                        (*s).to_string()
                    } else if let Some(s) = info.payload().downcast_ref::<String>() {
                        s.clone()
                    } else {
                        "<non-string panic>".to_string()
                    };
                    let loc = info.location().map(|l| format!(" at {}:{}", l.file(), l.line())).unwrap_or_default();
                    let t = &mut k.tasks[cur];
                    t.panicking += 1;
                    t.panics += 1;
                    t.last_panic = Some(format!("{}{}", msg, loc));
                    if std::env::var_os("DESIM_SHOW_PANICS").is_some() {
                        eprintln!("[desim] task {} '{}' panicked: {}{}", cur, t.name, msg, loc);
                    }
                    return;
                }
            }
            default(info);
        }));
    });
}

/// Runs `root` as task 0 of a fresh world and returns when the world has ended.
pub fn run<F: FnOnce() + 'static>(cfg: RunConfig, strategy: Box<dyn Strategy>, root: F) -> RunResult {
    install_panic_hook();
    assert!(kptr().is_null(), "nested simulation");
    let kernel = Box::new(Kernel {
        tasks: Vec::with_capacity(16),
        current: None,
        next: None,
        strategy,
        c: Counters::default(),
        step_cap: cfg.step_cap,
        abort: None,
        deviations: Vec::new(),
        sig: 0xcbf29ce484222325,
        sweep: Sweep { victim: None, count: 0, fire_at: cfg.sweep_fire_at.unwrap_or(u64::MAX), fired: false, injector: None, injecting: false },
        statics: Vec::new(),
        initial_max_threads: cfg.initial_max_threads,
        spurious_cv_permille: cfg.spurious_cv_permille,
        faults_off: false,
        yielding: false,
        spurious_park_permille: cfg.spurious_park_permille,
        spawn_observer: None,
        event_seq: 0,
        opts: Vec::with_capacity(16),
        hold: false,
    });
    let kp = Box::into_raw(kernel);
    KERNEL.with(|k| unsafe { *k.get() = kp });

    // like every other task: a panic ends the task, never the process
    spawn_task("controller".to_string(), move || {
        let _ = catch_unwind(root);
    });
    unsafe { (*kp).next = Some(0) };

    let outcome;
    loop {
        let k = unsafe { &mut *kp };
        if let Some(o) = k.abort {
            outcome = o;
            break;
        }
        let next = match k.next.take() {
            Some(t) => t,
            None => match k.decide(None) {
                Some(t) => t,
                None => {
                    outcome = if k.tasks.iter().all(|t| t.state == TState::Finished) { Outcome::Completed } else { Outcome::Stuck };
                    break;
                }
            },
        };
        debug_assert!(k.tasks[next].state == TState::Runnable, "resuming non-runnable task {} {:?}", next, k.tasks[next].state);
        k.current = Some(next);
        let mut coro = k.tasks[next].coro.take().expect("task has no coroutine");
        let r = coro.resume(());
        let k = unsafe { &mut *kp };
        k.current = None;
        match r {
            CoroutineResult::Yield(()) => {
                k.tasks[next].coro = Some(coro);
            }
            CoroutineResult::Return(()) => {
                give_stack(coro.into_stack());
                k.finish_task(next);
            }
        }
    }

    // End of the world.  Whatever is still suspended is abandoned without unwinding
    // (its destructors would call into a dead world); its stack memory is recycled.
    let k = unsafe { &mut *kp };
    for t in k.tasks.iter_mut() {
        if let Some(mut coro) = t.coro.take() {
            if coro.done() {
                give_stack(coro.into_stack());
            } else {
                unsafe { coro.force_reset() };
                give_stack(coro.into_stack());
            }
        }
    }
    // leftovers in the static store are leaked, never dropped
    k.statics.clear();
    KERNEL.with(|k| unsafe { *k.get() = std::ptr::null_mut() });
    let k = unsafe { Box::from_raw(kp) };
    let c = k.c.clone();
    RunResult {
        outcome,
        counters: c,
        deviations: k.deviations.clone(),
        sig: k.sig,
        tasks: k
            .tasks
            .iter()
            .enumerate()
            .map(|(id, t)| TaskInfo { id, name: t.name.clone(), state: t.state, points: t.points, panics: t.panics, last_panic: t.last_panic.clone() })
            .collect(),
        sweep_points: k.sweep.count,
    }
}

impl Kernel {
    fn finish_task(&mut self, t: TaskId) {
        self.tasks[t].state = TState::Finished;
        if self.tasks[t].pool {
            self.c.pool_exited += 1;
        }
        for o in self.tasks.iter_mut() {
            if o.state == TState::Blocked(Wait::Join(t)) {
                o.state = TState::Runnable;
            }
        }
        if self.sweep.injector == Some(t) {
            self.sweep.injecting = false;
        }
    }

    #[inline]
    fn mix_sig(&mut self, kind: DKind, v: u32) {
        let x = ((kind as u64) << 32) | v as u64;
        self.sig = (self.sig ^ x).wrapping_mul(0x100000001b3);
    }

    /// Chooses the next task.  `cur` is the task at the scheduling point if it stays runnable.
    fn decide(&mut self, cur: Option<TaskId>) -> Option<TaskId> {
        if self.sweep.injecting {
            if let Some(inj) = self.sweep.injector {
                if self.tasks[inj].state == TState::Runnable {
                    return Some(inj);
                }
            }
        }
        if self.hold {
            if let Some(c) = cur {
                return Some(c);
            }
        }
        let mut opts = std::mem::take(&mut self.opts);
        opts.clear();
        for (i, t) in self.tasks.iter().enumerate() {
            if t.state == TState::Runnable {
                opts.push(i);
            }
        }
        if self.yielding && opts.len() > 1 {
            if let Some(c) = cur {
                opts.retain(|&o| o != c);
            }
        }
        let r = if opts.is_empty() {
            // quiescence: everything else is finished or blocked
            let q = self.tasks.iter().position(|t| t.state == TState::Blocked(Wait::Quiesce));
            if let Some(q) = q {
                self.tasks[q].state = TState::Runnable;
                self.c.quiescences += 1;
            }
            q
        } else if opts.len() == 1 {
            Some(opts[0])
        } else {
            let default = cur.and_then(|c| opts.iter().position(|&o| o == c)).unwrap_or(0);
            let decision = self.c.decisions;
            self.c.decisions += 1;
            let idx = {
                let p = Pick { decision, step: self.c.steps, kind: DKind::Task, current: cur, options: &opts, default };
                self.strategy.pick(&p)
            };
            let idx = if idx < opts.len() { idx } else { default };
            let chosen = opts[idx];
            if idx != default {
                self.deviations.push((decision, chosen as u32));
                if cur.is_some() {
                    self.c.preemptions += 1;
                }
            }
            self.mix_sig(DKind::Task, chosen as u32);
            Some(chosen)
        };
        self.opts = opts;
        r
    }

    fn choose_index(&mut self, kind: DKind, n: usize) -> usize {
        if n <= 1 {
            return 0;
        }
        let decision = self.c.decisions;
        self.c.decisions += 1;
        let options: Vec<usize> = (0..n).collect();
        let idx = {
            let p = Pick { decision, step: self.c.steps, kind, current: self.current, options: &options, default: 0 };
            self.strategy.pick(&p)
        };
        let idx = if idx < n { idx } else { 0 };
        if idx != 0 {
            self.deviations.push((decision, idx as u32));
        }
        self.mix_sig(kind, idx as u32);
        idx
    }

    fn chance(&mut self, kind: DKind, permille: u32) -> bool {
        if permille == 0 || self.faults_off {
            return false;
        }
        let decision = self.c.decisions;
        self.c.decisions += 1;
        let r = self.strategy.chance(decision, kind, permille);
        if r {
            self.deviations.push((decision, 1));
        }
        self.mix_sig(kind, r as u32);
        r
    }

    fn unblock_where(&mut self, w: Wait) {
        for t in self.tasks.iter_mut() {
            if t.state == TState::Blocked(w) {
                t.state = TState::Runnable;
            }
        }
    }
}

fn suspend_current(k: &mut Kernel) {
    let cur = k.current.expect("suspend outside task");
    let y = k.tasks[cur].yielder;
    unsafe { (*y).suspend(()) };
}

/// Creates a task; it is runnable at once.  No scheduling point here (callers add one).
pub fn spawn_task<F: FnOnce() + 'static>(name: String, f: F) -> TaskId {
    let kp = kptr();
    assert!(!kp.is_null());
    let k = unsafe { &mut *kp };
    let id = k.tasks.len();
    let pool = name == "desync jobs thread";
    if pool {
        let live = (k.c.pool_spawned - k.c.pool_exited) as usize;
        if let Some(mut obs) = k.spawn_observer.take() {
            obs(&name, live);
            k.spawn_observer = Some(obs);
        }
        k.c.pool_spawned += 1;
        let live = k.c.pool_spawned - k.c.pool_exited;
        if live > k.c.pool_max_live {
            k.c.pool_max_live = live;
        }
    }
    k.c.tasks_spawned += 1;
    let coro: Coro = Coroutine::with_stack(take_stack(), move |y: &Yielder<(), ()>, _: ()| {
        let kp = kptr();
        unsafe { (&mut *kp).tasks[id].yielder = y as *const _ };
        f();
    });
    k.tasks.push(Task {
        coro: Some(coro),
        yielder: std::ptr::null(),
        state: TState::Runnable,
        name,
        park_token: false,
        panicking: 0,
        pool,
        points: 0,
        cv_blocks: 0,
        park_blocks: 0,
        last_panic: None,
        panics: 0,
    });
    k.strategy.on_spawn(id);
    id
}

/// A scheduling point: the strategy may switch to another runnable task.
#[inline]
pub fn point() {
    let kp = kptr();
    if kp.is_null() {
        return;
    }
    let k = unsafe { &mut *kp };
    let cur = match k.current {
        Some(c) => c,
        None => return,
    };
    k.c.steps += 1;
    k.tasks[cur].points += 1;
    if k.c.steps > k.step_cap {
        k.abort = Some(Outcome::StepCap);
        suspend_current(k);
        unreachable!("resumed after abort");
    }
    // position sweep: inject when the victim reaches its k-th point after the mark
    if k.sweep.victim == Some(cur) {
        if !k.sweep.fired && k.sweep.count == k.sweep.fire_at {
            k.sweep.fired = true;
            k.c.sweep_fired += 1;
            if let Some(inj) = k.sweep.injector {
                if k.tasks[inj].state == TState::Blocked(Wait::Trigger) {
                    k.tasks[inj].state = TState::Runnable;
                    k.sweep.injecting = true;
                }
            }
        }
        k.sweep.count += 1;
    }
    let next = k.decide(Some(cur)).expect("current task is runnable");
    if next != cur {
        k.next = Some(next);
        suspend_current(k);
    }
}

/// Blocks the current task until somebody makes it runnable again.
pub fn block(w: Wait) {
    let kp = kptr();
    let k = unsafe { &mut *kp };
    let cur = k.current.expect("block outside task");
    k.tasks[cur].state = TState::Blocked(w);
    match w {
        Wait::Condvar(_) => {
            k.tasks[cur].cv_blocks += 1;
            k.c.cv_waits += 1;
        }
        Wait::Park => {
            k.tasks[cur].park_blocks += 1;
            k.c.parks += 1;
        }
        Wait::Mutex(_) => k.c.lock_contended += 1,
        _ => {}
    }
    k.next = k.decide(None);
    suspend_current(k);
}

pub fn unblock_all(w: Wait) {
    with(|k| k.unblock_where(w));
}

/// Wakes one task blocked on `w`; which one is a recorded decision.
pub fn unblock_one(w: Wait) -> bool {
    with(|k| {
        let n = k.tasks.iter().filter(|t| t.state == TState::Blocked(w)).count();
        if n == 0 {
            return false;
        }
        if n > 1 {
            k.c.notify_picks += 1;
        }
        let idx = k.choose_index(DKind::Notify, n);
        let t = k.tasks.iter_mut().filter(|t| t.state == TState::Blocked(w)).nth(idx).unwrap();
        t.state = TState::Runnable;
        true
    })
    .unwrap_or(false)
}

pub fn spurious_cv() -> bool {
    with(|k| {
        let p = k.spurious_cv_permille;
        let r = k.chance(DKind::SpuriousCv, p);
        if r {
            k.c.spurious_cv += 1;
            k.c.last_fault_step = k.c.steps;
        }
        r
    })
    .unwrap_or(false)
}

/// `thread::yield_now`: a scheduling point at which the caller is not chosen again if anybody else can run (a thread that
/// spins on `yield_now` must not starve the thread it is waiting for, whatever the strategy).
pub fn yield_point() {
    with(|k| k.yielding = true);
    point();
    with(|k| k.yielding = false);
}

/// Faults stop / resume: while off, no spurious return is injected and no harness coin comes up (and none is drawn).
pub fn faults_off(off: bool) {
    with(|k| k.faults_off = off);
}

/// The harness has just injected an event of its own (a wake-up nobody asked for, a future waking itself).
pub fn note_fault() {
    with(|k| k.c.last_fault_step = k.c.steps);
}

/// Harness-level coin flip, recorded in the schedule like every other decision.
pub fn coin(permille: u32) -> bool {
    with(|k| {
        let r = k.chance(DKind::Harness, permille);
        if r {
            k.c.harness_coins += 1;
            k.c.last_fault_step = k.c.steps;
        }
        r
    })
    .unwrap_or(false)
}

pub fn park() {
    point();
    let kp = kptr();
    if kp.is_null() {
        panic!("park outside simulation");
    }
    let k = unsafe { &mut *kp };
    let cur = k.current.expect("park outside task");
    if k.tasks[cur].park_token {
        k.tasks[cur].park_token = false;
        return;
    }
    let p = k.spurious_park_permille;
    if k.chance(DKind::SpuriousPark, p) {
        k.c.spurious_park += 1;
        k.c.last_fault_step = k.c.steps;
        return;
    }
    block(Wait::Park);
}

pub fn unpark(t: TaskId) {
    point();
    with(|k| {
        if t >= k.tasks.len() {
            return;
        }
        if k.tasks[t].state == TState::Blocked(Wait::Park) {
            k.tasks[t].state = TState::Runnable;
        } else if k.tasks[t].state != TState::Finished {
            k.tasks[t].park_token = true;
        }
    });
}

pub fn is_finished(t: TaskId) -> bool {
    with(|k| k.tasks[t].state == TState::Finished).unwrap_or(true)
}

pub fn join(t: TaskId) {
    point();
    loop {
        if is_finished(t) {
            return;
        }
        block(Wait::Join(t));
    }
}

/// Blocks the caller until every other task is finished or blocked.
pub fn await_quiescence() {
    block(Wait::Quiesce);
}

/// Ends the run at once.  Nothing is resumed afterwards; all state is abandoned.
pub fn abort_run() -> ! {
    let kp = kptr();
    let k = unsafe { &mut *kp };
    k.abort = Some(Outcome::Aborted);
    suspend_current(k);
    unreachable!("resumed after abort");
}

/// While held, the calling task is not preempted (it still yields when it blocks).
pub fn hold(on: bool) {
    with(|k| k.hold = on);
}

pub fn panicking() -> bool {
    let kp = kptr();
    if kp.is_null() {
        return std::thread::panicking();
    }
    let k = unsafe { &*kp };
    match k.current {
        Some(c) => k.tasks[c].panicking > 0,
        None => std::thread::panicking(),
    }
}

/// `catch_unwind` that keeps the per-task panicking flag right.
pub fn catch_unwind<R>(f: impl FnOnce() -> R) -> std::thread::Result<R> {
    let r = std::panic::catch_unwind(std::panic::AssertUnwindSafe(f));
    if r.is_err() {
        with(|k| {
            if let Some(c) = k.current {
                if k.tasks[c].panicking > 0 {
                    k.tasks[c].panicking -= 1;
                }
            }
        });
    }
    r
}

pub fn last_panic_message() -> Option<String> {
    with(|k| k.current.and_then(|c| k.tasks[c].last_panic.clone())).flatten()
}

pub fn set_spawn_observer(f: Box<dyn FnMut(&str, usize)>) {
    with(|k| k.spawn_observer = Some(f));
}

/// Next value of the global event counter (no scheduling point, no randomness).
#[inline]
pub fn next_event_seq() -> u64 {
    with(|k| {
        let s = k.event_seq;
        k.event_seq += 1;
        s
    })
    .unwrap_or(0)
}

pub fn counters() -> Counters {
    with(|k| k.c.clone()).unwrap_or_default()
}

pub fn task_infos() -> Vec<TaskInfo> {
    with(|k| {
        k.tasks
            .iter()
            .enumerate()
            .map(|(id, t)| TaskInfo { id, name: t.name.clone(), state: t.state, points: t.points, panics: t.panics, last_panic: t.last_panic.clone() })
            .collect()
    })
    .unwrap_or_default()
}

pub fn task_blocks(t: TaskId) -> (u64, u64) {
    with(|k| (k.tasks[t].cv_blocks, k.tasks[t].park_blocks)).unwrap_or((0, 0))
}

// ---- position sweeps ---------------------------------------------------------

/// Called from the victim context: its scheduling points are counted from here on.
pub fn sweep_mark() {
    with(|k| {
        if k.sweep.victim.is_none() {
            k.sweep.victim = k.current;
            k.sweep.count = 0;
        }
    });
}

/// Called by the injector: returns when the victim reaches the configured point
/// (or when the controller releases the trigger).
pub fn sweep_wait() {
    let fired = with(|k| {
        k.sweep.injector = k.current;
        k.sweep.fired
    })
    .unwrap_or(true);
    if !fired {
        block(Wait::Trigger);
    }
}

/// Called by the injector when its injected operation is over.
pub fn sweep_done() {
    with(|k| k.sweep.injecting = false);
}

/// Called by the controller once faults stop: an injection that never fired happens now.
pub fn sweep_release() {
    with(|k| {
        if !k.sweep.fired {
            k.sweep.fired = true;
            k.unblock_where(Wait::Trigger);
        }
    });
}

pub fn sweep_points() -> u64 {
    with(|k| k.sweep.count).unwrap_or(0)
}
