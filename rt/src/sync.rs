//! Models of `std::sync::{Mutex, Condvar, mpsc}` on the deterministic kernel.
//! `Arc`, `Weak`, atomics and the error types are `std`'s own.

pub use std::sync::atomic;
pub use std::sync::{Arc, LockResult, PoisonError, TryLockError, TryLockResult, Weak};

use crate::kernel::{self, Wait};
use std::cell::{Cell, UnsafeCell};
use std::fmt;
use std::ops::{Deref, DerefMut};

pub struct Mutex<T: ?Sized> {
    locked: Cell<bool>,
    poisoned: Cell<bool>,
    data: UnsafeCell<T>,
}

unsafe impl<T: ?Sized + Send> Send for Mutex<T> {}
unsafe impl<T: ?Sized + Send> Sync for Mutex<T> {}

pub struct MutexGuard<'a, T: ?Sized + 'a> {
    lock: &'a Mutex<T>,
    panicking_at_acquire: bool,
}

impl<T> Mutex<T> {
    pub const fn new(t: T) -> Mutex<T> {
        Mutex { locked: Cell::new(false), poisoned: Cell::new(false), data: UnsafeCell::new(t) }
    }

    pub fn into_inner(self) -> LockResult<T> {
        let p = self.poisoned.get();
        let d = self.data.into_inner();
        if p {
            Err(PoisonError::new(d))
        } else {
            Ok(d)
        }
    }
}

impl<T: ?Sized> Mutex<T> {
    #[inline]
    fn addr(&self) -> usize {
        &self.locked as *const _ as usize
    }

    fn acquire(&self) {
        loop {
            if !self.locked.get() {
                self.locked.set(true);
                return;
            }
            if !kernel::in_sim() {
                panic!("rt::Mutex contended outside a simulation");
            }
            kernel::block(Wait::Mutex(self.addr()));
        }
    }

    fn guard(&self) -> LockResult<MutexGuard<'_, T>> {
        let g = MutexGuard { lock: self, panicking_at_acquire: kernel::panicking() };
        if self.poisoned.get() {
            Err(PoisonError::new(g))
        } else {
            Ok(g)
        }
    }

    pub fn lock(&self) -> LockResult<MutexGuard<'_, T>> {
        kernel::point();
        self.acquire();
        // Holding a lock across no scheduling point of its own cannot be observed by threads that `lock()` (they would
        // simply have waited), but it can by `try_lock()`.  When the library under test contains a `try_lock` call
        // (build.sh looks), a holder can be preempted right after acquiring, so that "busy" outcomes exist.
        #[cfg(verif_preempt_lock_holders)]
        kernel::point();
        self.guard()
    }

    pub fn try_lock(&self) -> TryLockResult<MutexGuard<'_, T>> {
        kernel::point();
        if self.locked.get() {
            return Err(TryLockError::WouldBlock);
        }
        self.locked.set(true);
        #[cfg(verif_preempt_lock_holders)]
        kernel::point();
        match self.guard() {
            Ok(g) => Ok(g),
            Err(e) => Err(TryLockError::Poisoned(e)),
        }
    }

    pub fn is_poisoned(&self) -> bool {
        self.poisoned.get()
    }

    pub fn get_mut(&mut self) -> LockResult<&mut T> {
        let p = self.poisoned.get();
        let d = self.data.get_mut();
        if p {
            Err(PoisonError::new(d))
        } else {
            Ok(d)
        }
    }

    /// Verification-only: look at the protected data without taking the lock and without a
    /// scheduling point.  `None` while somebody holds the lock.
    pub fn verif_peek<R>(&self, f: impl FnOnce(&T) -> R) -> Option<R> {
        if self.locked.get() {
            None
        } else {
            Some(f(unsafe { &*self.data.get() }))
        }
    }

    fn release(&self) {
        self.locked.set(false);
        kernel::unblock_all(Wait::Mutex(self.addr()));
    }
}

impl<T: Default> Default for Mutex<T> {
    fn default() -> Self {
        Mutex::new(T::default())
    }
}

impl<T: ?Sized + fmt::Debug> fmt::Debug for Mutex<T> {
    fn fmt(&self, f: &mut fmt::Formatter<'_>) -> fmt::Result {
        match self.verif_peek(|d| format!("{:?}", d)) {
            Some(s) => write!(f, "Mutex {{ data: {} }}", s),
            None => write!(f, "Mutex {{ <locked> }}"),
        }
    }
}

impl<'a, T: ?Sized> Deref for MutexGuard<'a, T> {
    type Target = T;
    fn deref(&self) -> &T {
        unsafe { &*self.lock.data.get() }
    }
}

impl<'a, T: ?Sized> DerefMut for MutexGuard<'a, T> {
    fn deref_mut(&mut self) -> &mut T {
        unsafe { &mut *self.lock.data.get() }
    }
}

impl<'a, T: ?Sized> Drop for MutexGuard<'a, T> {
    fn drop(&mut self) {
        // std's rule: poison only if the panic started while the guard was held
        if !self.panicking_at_acquire && kernel::panicking() {
            self.lock.poisoned.set(true);
        }
        self.lock.release();
        // releasing is a visible operation of its own: a thread can be preempted between two
        // unlocks (e.g. between "schedule looked at" and "busy flag released")
        kernel::point();
    }
}

impl<'a, T: ?Sized + fmt::Debug> fmt::Debug for MutexGuard<'a, T> {
    fn fmt(&self, f: &mut fmt::Formatter<'_>) -> fmt::Result {
        fmt::Debug::fmt(&**self, f)
    }
}

// ------------------------------------------------------------------------------

pub struct Condvar {
    _pad: Cell<u8>,
}

unsafe impl Send for Condvar {}
unsafe impl Sync for Condvar {}

impl Default for Condvar {
    fn default() -> Self {
        Condvar::new()
    }
}

impl fmt::Debug for Condvar {
    fn fmt(&self, f: &mut fmt::Formatter<'_>) -> fmt::Result {
        f.write_str("Condvar")
    }
}

impl Condvar {
    pub const fn new() -> Condvar {
        Condvar { _pad: Cell::new(0) }
    }

    #[inline]
    fn addr(&self) -> usize {
        &self._pad as *const _ as usize
    }

    pub fn wait<'a, T: ?Sized>(&self, guard: MutexGuard<'a, T>) -> LockResult<MutexGuard<'a, T>> {
        let lock = guard.lock;
        // a scheduling point before the wait takes effect
        kernel::point();
        let spurious = kernel::spurious_cv();
        // release and enqueue atomically (no scheduling point between the two)
        std::mem::forget(guard);
        lock.release();
        if spurious {
            kernel::point();
        } else {
            kernel::block(Wait::Condvar(self.addr()));
        }
        lock.acquire();
        lock.guard()
    }

    pub fn wait_while<'a, T: ?Sized, F: FnMut(&mut T) -> bool>(&self, mut guard: MutexGuard<'a, T>, mut condition: F) -> LockResult<MutexGuard<'a, T>> {
        while condition(&mut *guard) {
            guard = self.wait(guard)?;
        }
        Ok(guard)
    }

    pub fn notify_one(&self) {
        kernel::point();
        kernel::unblock_one(Wait::Condvar(self.addr()));
    }

    pub fn notify_all(&self) {
        kernel::point();
        kernel::unblock_all(Wait::Condvar(self.addr()));
    }
}

// ------------------------------------------------------------------------------

pub mod mpsc {
    use super::*;
    use std::collections::VecDeque;
    pub use std::sync::mpsc::{RecvError, SendError, TryRecvError};

    struct Chan<T> {
        queue: UnsafeCell<VecDeque<T>>,
        senders: Cell<usize>,
        receiver_alive: Cell<bool>,
    }

    unsafe impl<T: Send> Send for Chan<T> {}
    unsafe impl<T: Send> Sync for Chan<T> {}

    impl<T> Chan<T> {
        fn addr(&self) -> usize {
            &self.senders as *const _ as usize
        }
    }

    pub struct Sender<T> {
        chan: Arc<Chan<T>>,
    }

    pub struct Receiver<T> {
        chan: Arc<Chan<T>>,
    }

    pub fn channel<T>() -> (Sender<T>, Receiver<T>) {
        let chan = Arc::new(Chan { queue: UnsafeCell::new(VecDeque::new()), senders: Cell::new(1), receiver_alive: Cell::new(true) });
        (Sender { chan: chan.clone() }, Receiver { chan })
    }

    impl<T> Sender<T> {
        pub fn send(&self, t: T) -> Result<(), SendError<T>> {
            kernel::point();
            if !self.chan.receiver_alive.get() {
                return Err(SendError(t));
            }
            unsafe { (*self.chan.queue.get()).push_back(t) };
            kernel::unblock_all(Wait::Recv(self.chan.addr()));
            Ok(())
        }
    }

    impl<T> Clone for Sender<T> {
        fn clone(&self) -> Self {
            self.chan.senders.set(self.chan.senders.get() + 1);
            Sender { chan: self.chan.clone() }
        }
    }

    impl<T> Drop for Sender<T> {
        fn drop(&mut self) {
            let n = self.chan.senders.get() - 1;
            self.chan.senders.set(n);
            if n == 0 {
                kernel::unblock_all(Wait::Recv(self.chan.addr()));
            }
        }
    }

    impl<T> fmt::Debug for Sender<T> {
        fn fmt(&self, f: &mut fmt::Formatter<'_>) -> fmt::Result {
            f.write_str("Sender")
        }
    }

    impl<T> Receiver<T> {
        pub fn recv(&self) -> Result<T, RecvError> {
            kernel::point();
            loop {
                if let Some(t) = unsafe { (*self.chan.queue.get()).pop_front() } {
                    return Ok(t);
                }
                if self.chan.senders.get() == 0 {
                    return Err(RecvError);
                }
                kernel::block(Wait::Recv(self.chan.addr()));
            }
        }

        pub fn try_recv(&self) -> Result<T, TryRecvError> {
            kernel::point();
            if let Some(t) = unsafe { (*self.chan.queue.get()).pop_front() } {
                return Ok(t);
            }
            if self.chan.senders.get() == 0 {
                Err(TryRecvError::Disconnected)
            } else {
                Err(TryRecvError::Empty)
            }
        }
    }

    impl<T> Drop for Receiver<T> {
        fn drop(&mut self) {
            self.chan.receiver_alive.set(false);
            let q = unsafe { std::mem::take(&mut *self.chan.queue.get()) };
            drop(q);
        }
    }

    impl<T> fmt::Debug for Receiver<T> {
        fn fmt(&self, f: &mut fmt::Formatter<'_>) -> fmt::Result {
            f.write_str("Receiver")
        }
    }
}
