//! Seeded scheduling strategies.  One is drawn per run (swarm style).

use crate::kernel::{DKind, Pick, Strategy, TaskId};

/// xoshiro256** seeded through splitmix64
#[derive(Clone)]
pub struct Rng {
    s: [u64; 4],
}

pub fn splitmix(x: &mut u64) -> u64 {
    *x = x.wrapping_add(0x9e3779b97f4a7c15);
    let mut z = *x;
    z = (z ^ (z >> 30)).wrapping_mul(0xbf58476d1ce4e5b9);
    z = (z ^ (z >> 27)).wrapping_mul(0x94d049bb133111eb);
    z ^ (z >> 31)
}

pub fn mix(a: u64, b: u64) -> u64 {
    let mut x = a ^ b.wrapping_mul(0x9e3779b97f4a7c15).rotate_left(23);
    splitmix(&mut x)
}

impl Rng {
    pub fn new(seed: u64) -> Rng {
        let mut x = seed;
        Rng { s: [splitmix(&mut x), splitmix(&mut x), splitmix(&mut x), splitmix(&mut x)] }
    }
    #[inline]
    pub fn next(&mut self) -> u64 {
        let r = self.s[1].wrapping_mul(5).rotate_left(7).wrapping_mul(9);
        let t = self.s[1] << 17;
        self.s[2] ^= self.s[0];
        self.s[3] ^= self.s[1];
        self.s[1] ^= self.s[2];
        self.s[0] ^= self.s[3];
        self.s[2] ^= t;
        self.s[3] = self.s[3].rotate_left(45);
        r
    }
    /// uniform in 0..n (n > 0)
    #[inline]
    pub fn below(&mut self, n: u64) -> u64 {
        ((self.next() as u128 * n as u128) >> 64) as u64
    }
    #[inline]
    pub fn range(&mut self, lo: u64, hi_incl: u64) -> u64 {
        lo + self.below(hi_incl - lo + 1)
    }
    #[inline]
    pub fn permille(&mut self, p: u32) -> bool {
        self.below(1000) < p as u64
    }
    pub fn pick<'a, T>(&mut self, v: &'a [T]) -> &'a T {
        &v[self.below(v.len() as u64) as usize]
    }
    pub fn weighted(&mut self, w: &[u32]) -> usize {
        let tot: u64 = w.iter().map(|&x| x as u64).sum();
        let mut r = self.below(tot.max(1));
        for (i, &x) in w.iter().enumerate() {
            if r < x as u64 {
                return i;
            }
            r -= x as u64;
        }
        w.len() - 1
    }
}

#[derive(Clone, Debug, PartialEq)]
pub enum StrategyKind {
    Uniform,
    /// switch away from a runnable current task with probability p/1000
    Sticky(u32),
    /// PCT with d priority change points over an expected run length
    Pct { depth: u32, expected_len: u64 },
    /// default policy with k random deviations over an expected number of decisions
    Delay { k: u32, expected_decisions: u64 },
}

pub fn build(kind: &StrategyKind, seed: u64) -> Box<dyn Strategy> {
    match kind {
        StrategyKind::Uniform => Box::new(Uniform { rng: Rng::new(seed) }),
        StrategyKind::Sticky(p) => Box::new(Sticky { rng: Rng::new(seed), p: *p }),
        StrategyKind::Pct { depth, expected_len } => Box::new(Pct::new(seed, *depth, *expected_len)),
        StrategyKind::Delay { k, expected_decisions } => Box::new(Delay::new(seed, *k, *expected_decisions)),
    }
}

pub struct Uniform {
    rng: Rng,
}

impl Strategy for Uniform {
    fn pick(&mut self, p: &Pick) -> usize {
        self.rng.below(p.options.len() as u64) as usize
    }
    fn chance(&mut self, _d: u64, _k: DKind, permille: u32) -> bool {
        self.rng.permille(permille)
    }
}

pub struct Sticky {
    rng: Rng,
    p: u32,
}

impl Strategy for Sticky {
    fn pick(&mut self, p: &Pick) -> usize {
        if p.kind == DKind::Task && p.current.is_some() && !self.rng.permille(self.p) {
            return p.default;
        }
        self.rng.below(p.options.len() as u64) as usize
    }
    fn chance(&mut self, _d: u64, _k: DKind, permille: u32) -> bool {
        self.rng.permille(permille)
    }
}

pub struct Pct {
    rng: Rng,
    prio: Vec<u64>,
    change_at: Vec<u64>,
    next_low: u64,
}

impl Pct {
    fn new(seed: u64, depth: u32, expected_len: u64) -> Pct {
        let mut rng = Rng::new(seed);
        let mut change_at: Vec<u64> = (0..depth).map(|_| rng.below(expected_len.max(1))).collect();
        change_at.sort();
        Pct { rng, prio: Vec::new(), change_at, next_low: 1_000 }
    }
    fn prio_of(&mut self, t: TaskId) -> u64 {
        while self.prio.len() <= t {
            let p = 1_000_000 + self.rng.below(1_000_000);
            self.prio.push(p);
        }
        self.prio[t]
    }
}

impl Strategy for Pct {
    fn pick(&mut self, p: &Pick) -> usize {
        if p.kind != DKind::Task {
            return self.rng.below(p.options.len() as u64) as usize;
        }
        if let Some(cur) = p.current {
            if self.change_at.first().map_or(false, |&c| p.step >= c) {
                self.change_at.remove(0);
                self.prio_of(cur);
                self.next_low -= 1;
                self.prio[cur] = self.next_low;
            }
        }
        let mut best = 0;
        let mut bp = 0;
        for (i, &t) in p.options.iter().enumerate() {
            let pr = self.prio_of(t);
            if i == 0 || pr > bp {
                best = i;
                bp = pr;
            }
        }
        best
    }
    fn chance(&mut self, _d: u64, _k: DKind, permille: u32) -> bool {
        self.rng.permille(permille)
    }
}

pub struct Delay {
    rng: Rng,
    at: Vec<u64>,
}

impl Delay {
    fn new(seed: u64, k: u32, expected: u64) -> Delay {
        let mut rng = Rng::new(seed);
        let mut at: Vec<u64> = (0..k).map(|_| rng.below(expected.max(1))).collect();
        at.sort();
        at.dedup();
        Delay { rng, at }
    }
}

impl Strategy for Delay {
    fn pick(&mut self, p: &Pick) -> usize {
        if self.at.binary_search(&p.decision).is_ok() && p.options.len() > 1 {
            // deviate: anything but the default
            let r = self.rng.below(p.options.len() as u64 - 1) as usize;
            if r >= p.default {
                r + 1
            } else {
                r
            }
        } else {
            p.default
        }
    }
    fn chance(&mut self, _d: u64, _k: DKind, permille: u32) -> bool {
        // optional events are rare under this strategy too
        self.rng.permille(permille)
    }
}

/// Replays a sparse list of deviations from the default policy.
pub struct Replay {
    pub overrides: Vec<(u64, u32)>,
}

impl Replay {
    fn find(&self, d: u64) -> Option<u32> {
        self.overrides.binary_search_by_key(&d, |&(k, _)| k).ok().map(|i| self.overrides[i].1)
    }
}

impl Strategy for Replay {
    fn pick(&mut self, p: &Pick) -> usize {
        match self.find(p.decision) {
            Some(v) => {
                if p.kind == DKind::Task {
                    p.options.iter().position(|&o| o == v as usize).unwrap_or(p.default)
                } else if (v as usize) < p.options.len() {
                    v as usize
                } else {
                    p.default
                }
            }
            None => p.default,
        }
    }
    fn chance(&mut self, d: u64, _k: DKind, _permille: u32) -> bool {
        self.find(d).is_some()
    }
}
