#!/bin/bash
# Reach measurement: which lines / branches of /repo/src do the simulated families execute?
# Builds the simulator with source-based coverage on the nightly toolchain (llvm-tools are only there), runs every
# property's quick family at a reduced scale, merges the profiles of all worker processes and writes
#   evidence/coverage.txt      per-file summary (regions / functions / lines)
#   evidence/coverage-missed.txt  the lines of /repo/src never executed
# This is a diagnostic, not a check: it is not registered in MANIFEST.json and never decides a property.
# usage: coverage.sh [scale=0.02] [props...]
set -uo pipefail
VERIF="$(cd "$(dirname "${BASH_SOURCE[0]}")" && pwd)"
SCALE="${1:-0.02}"; shift || true
PROPS=("$@"); [ ${#PROPS[@]} -gt 0 ] || PROPS=(C01 C02 C03 C04 C05 C06 C07 C08 C09 C10 C11 C12 C13 C15 C16 C17)
REPO="${VERIF_REPO:-/repo}"
TROOT="$VERIF/target"
WS="$TROOT/ws-main"
mkdir -p "$TROOT"
"$VERIF/build.sh" "$REPO" >/dev/null 2>&1 || true   # makes sure the workspace exists
export CARGO_TARGET_DIR="$TROOT/build-cov"
export CARGO_NET_OFFLINE=true
export RUSTFLAGS="--cfg logicalshift_desync_verif -C instrument-coverage"
( cd "$WS" && cargo +nightly build --release --offline -p desim 2>&1 | tail -3 ) || { echo "coverage build failed"; exit 2; }
BIN="$CARGO_TARGET_DIR/release/desim"
TOOLS="$(rustc +nightly --print sysroot)/lib/rustlib/x86_64-unknown-linux-gnu/bin"
PROF="$TROOT/cov-prof"; rm -rf "$PROF"; mkdir -p "$PROF"
OUT="$(mktemp -d "$TROOT/cov-out.XXXX")"
for p in "${PROPS[@]}"; do
  LLVM_PROFILE_FILE="$PROF/$p-%p-%m.profraw" "$BIN" check --prop "$p" --tier quick --scale "$SCALE" --verif-root "$OUT" --minimise-secs 0 2>&1 | grep -E "^property" | cut -c1-160
done
"$TOOLS/llvm-profdata" merge -sparse "$PROF"/*.profraw -o "$PROF/all.profdata" || exit 2
mkdir -p "$VERIF/evidence"
"$TOOLS/llvm-cov" report "$BIN" -instr-profile="$PROF/all.profdata" --ignore-filename-regex='(\.cargo|/rustc/|/verif/)' 2>/dev/null > "$VERIF/evidence/coverage.txt"
"$TOOLS/llvm-cov" show "$BIN" -instr-profile="$PROF/all.profdata" --ignore-filename-regex='(\.cargo|/rustc/|/verif/)' --show-line-counts-or-regions 2>/dev/null \
  | awk '/^\/.*:$/ {file=$0} /^ +[0-9]+\| +0\|/ {print file " " $0}' > "$VERIF/evidence/coverage-missed.txt"
cat "$VERIF/evidence/coverage.txt"
rm -rf "$PROF" "$OUT"
