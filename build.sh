#!/bin/bash
# Generates the build workspace for a given repository tree and builds the simulator.
# usage: build.sh [repo path]   (prints the path of the desim binary on the last line)
set -uo pipefail
VERIF="$(cd "$(dirname "${BASH_SOURCE[0]}")" && pwd)"
REPO="${1:-${VERIF_REPO:-/repo}}"
REPO="$(cd "$REPO" && pwd)"
if [ "$REPO" = "/repo" ]; then KEY=main; else KEY="alt-$(echo -n "$REPO" | md5sum | cut -c1-10)"; fi
TROOT="${VERIF_TARGET_ROOT:-$VERIF/target}"
WS="$TROOT/ws-$KEY"
export CARGO_TARGET_DIR="$TROOT/build-$KEY"
export CARGO_NET_OFFLINE=true
mkdir -p "$WS/shadow" "$WS/desim"
gen() { # template dest
  sed -e "s#@REPO@#$REPO#g" -e "s#@VERIF@#$VERIF#g" "$1" > "$2.new"
  if ! cmp -s "$2.new" "$2" 2>/dev/null; then mv "$2.new" "$2"; else rm "$2.new"; fi
}
gen "$VERIF/shadow/Cargo.toml.in" "$WS/shadow/Cargo.toml"
gen "$VERIF/desim/Cargo.toml.in" "$WS/desim/Cargo.toml"
gen "$VERIF/workspace.toml.in" "$WS/Cargo.toml"
[ -f "$WS/Cargo.lock" ] || cp "$VERIF/Cargo.lock.seed" "$WS/Cargo.lock"
export RUSTFLAGS="--cfg logicalshift_desync_verif"
# a library that uses try_lock can observe a lock being held: lock holders then become preemptible right after acquiring (rt/src/sync.rs)
if grep -rqs "try_lock" "$REPO/src"; then export RUSTFLAGS="$RUSTFLAGS --cfg verif_preempt_lock_holders"; fi
BLOG="$TROOT/build-$KEY.log"
( cd "$WS" && cargo build --release --offline -p desim ) >"$BLOG" 2>&1
RC=$?
grep -v "^warning: unused\|^\s*$" "$BLOG" | tail -${VERIF_BUILD_TAIL:-15} >&2 || true
BIN="$CARGO_TARGET_DIR/release/desim"
# a failed build must never fall back on a binary left over from an earlier tree
if [ $RC -ne 0 ] || [ ! -x "$BIN" ]; then echo "build failed" >&2; exit 2; fi
# the binary must be newer than every source it depends on (cargo guarantees this on success)
echo "$BIN"
