#!/bin/bash
# Sensitivity self-test: each patch in /verif/mutants (a deliberate property-breaking edit) is applied to a scratch
# worktree; the owning property's quick check must exit 1 there.  usage: selftest_sensitivity.sh [scale] [name filter]
VERIF="$(cd "$(dirname "${BASH_SOURCE[0]}")" && pwd)"
SCALE="${1:-0.25}"; FILTER="${2:-}"
python3 -c "
import json
for m in json.load(open('$VERIF/mutants/index.json')):
    print(m['name'], ' '.join(m['owners']))
" | while read NAME OWNERS; do
  [ -n "$FILTER" ] && [[ "$NAME" != *$FILTER* ]] && continue
  "$VERIF/mutant_test.sh" "$NAME" "$VERIF/mutants/$NAME.patch" "$SCALE" $OWNERS 2>&1 | grep -E "^\[|build failed|does not apply|error" | head -6
done
