//! One simulated run: controller task, phases, "faults stop", quiescence, teardown.

use crate::interp::*;
use crate::ir::*;
use crate::world::*;
use desync::scheduler::scheduler;
use desync::Desync;
use desync_verif_rt as rt;
use rt::kernel::{self, Outcome, RunConfig, RunResult, TState};
use rt::strategy::StrategyKind;
use std::sync::Arc;

#[derive(Clone, Debug, PartialEq)]
pub enum Stage {
    Setup,
    Phase(usize),
    /// waiting for quiescence with faults still possible
    Quiesce1(usize),
    /// faults stopped, waiting for everything to drain
    Drain(usize),
    Probes,
    TeardownObjects,
    TeardownPool,
    TeardownStatics,
    Done,
}

#[derive(Clone, Debug)]
pub struct TaskSnap {
    pub id: usize,
    pub name: String,
    pub state: TState,
}

/// Facts collected by the controller while the world still exists.
#[derive(Clone, Debug, Default)]
pub struct Facts {
    pub stage: Option<Stage>,
    pub hung: bool,
    pub hung_tasks: Vec<TaskSnap>,
    /// (object, state tag, queue len, waiters) at the moment the run was judged stuck / finished
    pub queue_peeks: Vec<(usize, Option<(u8, usize, usize)>)>,
    pub sched_peek: Option<(usize, usize, usize, usize)>,
    /// per phase: what the world looked like at the first quiescence (gates as the program left them)
    pub q1: Vec<Q1Snap>,
    /// per phase: the same after every gate has been opened (input streams still open)
    pub q2: Vec<Q1Snap>,
    pub final_try_sync: Vec<(usize, String)>,
    pub pool_after_despawn: Vec<(usize, u64, usize)>,
    pub abandoned: Option<String>,
    pub teardown_complete: bool,
    pub despawn_returned: bool,
    pub capacity_probe: Option<(usize, usize)>,
}

#[derive(Clone, Debug, Default)]
pub struct Q1Snap {
    pub unfinished: Vec<u32>,
    pub started_unfinished: Vec<u32>,
    pub strong: Vec<Option<usize>>,
    pub value_drops: Vec<u32>,
    /// owners (strong references) alive per object, whoever holds them
    pub live_owners: Vec<usize>,
    /// (stream drops, closure drops)
    pub streams: Vec<(u32, u32)>,
    pub queues: Vec<Option<(u8, usize, usize)>>,
    pub seq: u64,
    /// sync callers (op id, object, queue state tag) asleep on a condition variable although their queue can be claimed
    pub asleep_syncs: Vec<(u32, usize, u8)>,
    /// per pipe with an output: (output, input stream, items pushed, items whose processing has started, finished, outputs read, depth, output dropped, consumer waiting)
    pub pipes: Vec<(usize, usize, usize, usize, usize, usize, usize, bool, bool)>,
}

thread_local! {
    static FACTS: std::cell::UnsafeCell<Facts> = std::cell::UnsafeCell::new(Facts::default());
}

pub fn facts() -> &'static mut Facts {
    FACTS.with(|f| unsafe { &mut *f.get() })
}

pub fn abandon(why: &str) -> ! {
    facts().abandoned = Some(why.to_string());
    kernel::abort_run()
}

pub struct RunSpec {
    pub prog: Arc<Program>,
    pub strategy: StrategyKind,
    pub sched_seed: u64,
    pub replay: Option<Vec<(u64, u32)>>,
    pub sweep_fire_at: Option<u64>,
    pub step_cap: u64,
}

pub struct RunReport {
    pub result: RunResult,
    pub world: Box<World>,
    pub facts: Facts,
}

fn snapshot_tasks() -> Vec<TaskSnap> {
    kernel::task_infos().into_iter().map(|t| TaskSnap { id: t.id, name: t.name, state: t.state }).collect()
}

fn peek_all() {
    let world = w();
    let mut v = vec![];
    for (i, o) in world.objs.iter().enumerate() {
        v.push((i, o.peek()));
    }
    let f = facts();
    f.queue_peeks = v;
    f.sched_peek = scheduler().verif_peek();
}

fn note_states() {
    let world = w();
    for o in world.objs.iter() {
        if let Some((st, _, _)) = o.peek() {
            world.cover.state_seen[st as usize] += 1;
        }
    }
}

fn all_callers_done(names: &[String]) -> bool {
    let infos = kernel::task_infos();
    names.iter().all(|n| infos.iter().filter(|t| &t.name == n).all(|t| t.state == TState::Finished))
}

fn run_thread(ops: Vec<Op>) {
    for op in &ops {
        exec_op(op);
        note_states();
    }
}

fn stop_faults() {
    // every external event happens now: gates open, streams end, suspended queues resume
    kernel::sweep_release();
    let n_gates = w().gates.len();
    for g in 0..n_gates {
        if !w().gates[g].open {
            gate_open(g);
        }
        gate_wake_stale(g);
    }
}

fn close_streams() {
    let n = w().streams.len();
    for s in 0..n {
        if !w().streams[s].closed {
            stream_close(s);
        }
    }
}

/// Handles that a later phase of the program still uses (waits for, polls, drops): the program has not left them behind.
fn handles_used_after(prog: &Program, pi: usize) -> Vec<usize> {
    let mut used = vec![];
    for ph in prog.phases.iter().skip(pi + 1) {
        for t in &ph.threads {
            for op in t {
                match &op.k {
                    OpKind::Await { h } | OpKind::PollOnce { h } | OpKind::SyncWait { h } | OpKind::DropHandle { h } | OpKind::Detach { h } => used.push(*h),
                    _ => {}
                }
            }
        }
    }
    used
}

fn release_resumers_and_handles(only_resumers: bool, keep: &[usize]) {
    let n = w().handles.len();
    for h in 0..n {
        let is_resumer = matches!(w().handles[h], HandleSlot::Resumer(_));
        if is_resumer || (!only_resumers && !keep.contains(&h)) {
            drop_handle(h);
        }
    }
}

fn take_snapshot(pi: usize, code: &'static str) -> Q1Snap {
    let sq = ev(code, pi as i64, 0);
    let world = w();
    let mut snap = Q1Snap { seq: sq, ..Default::default() };
    for r in world.ops.iter() {
        // (operations accepted in an earlier phase that nobody has run yet, pool of zero threads, are still outstanding)
        if r.phase <= pi && r.kind.has_body() && r.inv.is_some() && r.fin.is_none() {
            snap.unfinished.push(r.id);
            if r.start.is_some() {
                snap.started_unfinished.push(r.id);
            }
        }
    }
    for o in world.objs.iter() {
        snap.strong.push(o.arc.as_ref().map(|a| Arc::strong_count(a)));
        snap.value_drops.push(o.value_drops);
        snap.live_owners.push(o.weak.as_ref().map_or(0, |w| w.strong_count()));
        snap.queues.push(o.peek());
    }
    for st in world.streams.iter() {
        snap.streams.push((st.drops, st.closure_drops));
    }
    for (oi, os) in world.outs.iter().enumerate() {
        let Some(si) = os.src else { continue };
        let st = &world.streams[si];
        snap.pipes.push((oi, si, st.pushed.len(), st.processed.len(), st.processed.iter().filter(|p| p.2.is_some()).count(), os.outputs.len(), if os.depth_dirty { 0 } else { os.depth }, os.dropped_at.is_some(), os.waiting.is_some()));
    }
    // everything is quiet: a caller asleep in sync on a queue that it could claim will not be woken by anybody
    let infos = kernel::task_infos();
    for r in world.ops.iter() {
        if r.kind != Kind::Sync || r.outcome != CallOutcome::InCall || r.start.is_some() {
            continue;
        }
        let (Some(o), Some(t)) = (r.obj, r.thread) else { continue };
        if world.objs[o].panic_injected {
            continue;
        }
        let on_condvar = infos.get(t).map_or(false, |i| matches!(i.state, TState::Blocked(rt::kernel::Wait::Condvar(_))));
        let Some(Some((st, _, _))) = snap.queues.get(o).copied() else { continue };
        let event_fired = world.ops.iter().any(|x| {
            x.obj == Some(o) && x.start.is_some() && x.fin.is_none() && x.kind != Kind::FutureSync && x.waiting_gate.map_or(false, |g| world.gates[g].open || x.waiting_gate_alt.map_or(false, |g2| world.gates[g2].open))
        });
        if on_condvar && (st == 0 || st == 1 || (st == 5 && event_fired)) && crate::oracle::sync_is_owed_progress(world, r) {
            snap.asleep_syncs.push((r.id, o, st));
        }
    }
    snap
}

fn controller(prog: Arc<Program>) {
    let f = facts();
    *f = Facts::default();
    f.stage = Some(Stage::Setup);

    kernel::set_spawn_observer(Box::new(|_name, live_before| {
        let world = w();
        if live_before >= world.cur_max && world.spawn_violation.is_none() {
            world.spawn_violation = Some((live_before, world.cur_max));
        }
    }));

    for o in 0..prog.n_objs {
        if prog.raw_objs.contains(&o) {
            // a bare queue: its jobs work on a value that belongs to the harness (never freed, so a job that outlives every handle
            // of the queue still has something to work on)
            let q = desync::scheduler::queue();
            let world = w();
            world.objs[o].is_raw = true;
            world.objs[o].raw_weak = Some(Arc::downgrade(&q));
            world.objs[o].raw = Some(q);
            world.objs[o].raw_val = Box::into_raw(Box::new(Val { o, occupant: None, chain: 0, log: vec![] })) as usize;
            continue;
        }
        let d = Arc::new(Desync::new(Val { o, occupant: None, chain: 0, log: vec![] }));
        let q = d.verif_queue().clone();
        let world = w();
        world.objs[o].queue = Some(q);
        world.objs[o].weak = Some(Arc::downgrade(&d));
        world.objs[o].arc = Some(d);
    }
    if prog.prespawn {
        // an already grown pool: every thread exists and is dormant
        for _ in 0..prog.pool_max {
            scheduler().spawn_thread();
        }
    }

    let mut hung = false;
    for (pi, phase) in prog.phases.iter().enumerate() {
        w().phase = pi;
        let ps = ev("phase", pi as i64, 0);
        w().phase_started.push(ps);
        facts().stage = Some(Stage::Phase(pi));
        if pi > 0 {
            // the previous phase has drained completely: external events start out pending again
            let world = w();
            for g in world.gates.iter_mut() {
                g.open = false;
                g.opened_at = None;
                g.wakers.clear();
                g.stale.clear();
                g.m = Arc::new(rt::sync::Mutex::new(false));
                g.cv = Arc::new(rt::sync::Condvar::new());
            }
        }
        for c in &phase.ctl {
            match c {
                CtlOp::SetMaxLazy(n) => {
                    // the limit is raised for the oracle before the call and lowered after it
                    let world = w();
                    if *n > world.cur_max {
                        world.cur_max = *n;
                    }
                    scheduler().verif_set_max_threads(*n);
                    w().cur_max = *n;
                }
                CtlOp::SetMaxEager(n) => {
                    let world = w();
                    if *n > world.cur_max {
                        world.cur_max = *n;
                    }
                    // set_max_threads loops "while schedule_thread()"; against dormant threads that are
                    // scheduled fairly this can spin for a long time, so the controller is not preempted here
                    kernel::hold(true);
                    scheduler().set_max_threads(*n);
                    kernel::hold(false);
                    w().cur_max = *n;
                }
                CtlOp::SpawnExtra => {
                    // explicit spawn_thread() is allowed to exceed the maximum; the oracle is told
                    let world = w();
                    let save = world.cur_max;
                    world.cur_max = usize::MAX;
                    scheduler().spawn_thread();
                    w().cur_max = save;
                }
                CtlOp::Despawn => {
                    facts().despawn_returned = false;
                    scheduler().despawn_threads_if_overloaded();
                    facts().despawn_returned = true;
                    let c = kernel::counters();
                    let live = c.pool_spawned - c.pool_exited;
                    let max = w().cur_max;
                    facts().pool_after_despawn.push((pi, live, max));
                }
            }
        }
        let mut names = vec![];
        for (ti, t) in phase.threads.iter().enumerate() {
            let name = format!("t{}.{}", pi, ti);
            names.push(name.clone());
            let ops = t.clone();
            rt::thread::spawn_named(&name, move || run_thread(ops));
        }
        if !phase.env_gates.is_empty() {
            let name = format!("envg{}", pi);
            names.push(name.clone());
            let ops = phase.env_gates.clone();
            rt::thread::spawn_named(&name, move || run_thread(ops));
        }
        if !phase.env_streams.is_empty() {
            let name = format!("envs{}", pi);
            names.push(name.clone());
            let ops = phase.env_streams.clone();
            rt::thread::spawn_named(&name, move || run_thread(ops));
        }
        kernel::point();

        facts().stage = Some(Stage::Quiesce1(pi));
        kernel::await_quiescence();
        note_states();
        // first quiescence: external gates are as the program left them
        {
            let snap = take_snapshot(pi, "quiescence1");
            let f = facts();
            while f.q1.len() <= pi {
                f.q1.push(Q1Snap::default());
            }
            f.q1[pi] = snap;
        }

        facts().stage = Some(Stage::Drain(pi));
        w().faults_stopped = true;
        kernel::faults_off(true);
        let keep = handles_used_after(&prog, pi);
        let mut rounds = 0;
        let mut last_points: u64 = 0;
        loop {
            stop_faults();
            release_resumers_and_handles(rounds < 2, &keep);
            if rounds >= 1 {
                close_streams();
            }
            kernel::await_quiescence();
            if rounds == 0 {
                // second snapshot: every gate is open, the input streams are still open and silent
                let snap = take_snapshot(pi, "quiescence2");
                let f = facts();
                while f.q2.len() <= pi {
                    f.q2.push(Q1Snap::default());
                }
                f.q2[pi] = snap;
            }
            rounds += 1;
            let pts: u64 = kernel::task_infos().iter().map(|t| t.points).sum();
            if all_callers_done(&names) || rounds >= 12 || (rounds >= 4 && pts == last_points) {
                break;
            }
            last_points = pts;
        }
        if all_callers_done(&names) {
            // what the program left behind: inputs end, unread handles are dropped
            close_streams();
            kernel::await_quiescence();
            release_resumers_and_handles(false, &keep);
            kernel::await_quiescence();
            stop_faults();
            kernel::await_quiescence();
        }
        w().faults_stopped = false;
        kernel::faults_off(false);
        note_states();
        if !all_callers_done(&names) {
            hung = true;
            break;
        }
        // Everything has gone quiet and nobody is going to call the API again on its own:
        // with a pool thread allowed, every accepted background operation must have run by now
        // (the teardown below would kick stranded queues and hide them).
        if crate::oracle::liveness_mode(&prog) == crate::oracle::Live::Full {
            let world = w();
            let stranded = world.ops.iter().any(|r| {
                r.kind.background() && matches!(r.outcome, CallOutcome::Returned(_)) && r.fin.is_none() && r.obj.map_or(false, |o| !world.objs[o].panic_injected)
            });
            if stranded {
                hung = true;
                break;
            }
        }
    }

    peek_all();
    if hung {
        let f = facts();
        f.hung = true;
        f.hung_tasks = snapshot_tasks();
        return;
    }

    // final probes: an object with nothing queued or in progress accepts try_sync
    facts().stage = Some(Stage::Probes);
    for o in 0..prog.n_objs {
        let (arc, skip) = {
            let world = w();
            let unfinished = world.ops.iter().any(|r| r.obj == Some(o) && r.kind.has_body() && r.start.is_some() && r.fin.is_none());
            let pending = world.ops.iter().any(|r| r.obj == Some(o) && r.kind.has_body() && matches!(r.outcome, CallOutcome::Returned(_)) && r.start.is_none() && !(r.kind == Kind::FutureSync));
            (world.objs[o].arc.clone(), world.objs[o].panic_injected || unfinished || pending)
        };
        if arc.is_none() && w().objs[o].is_raw {
            let q = w().objs[o].raw.clone();
            if let (Some(q), false) = (q, skip) {
                let peek = q.verif_peek();
                let r = kernel::catch_unwind(|| desync::scheduler::try_sync(&q, || 1u8));
                let txt = match r {
                    Ok(Ok(_)) => "ok".to_string(),
                    Ok(Err(_)) => format!("busy (queue state before the call: {:?})", peek),
                    Err(_) => "panicked".to_string(),
                };
                facts().final_try_sync.push((o, txt));
            }
        }
        if let Some(d) = arc {
            if !skip {
                let peek = d.verif_queue().verif_peek();
                let r = kernel::catch_unwind(|| d.try_sync(|_v| 1u8));
                let txt = match r {
                    Ok(Ok(_)) => "ok".to_string(),
                    Ok(Err(_)) => format!("busy (queue state before the call: {:?})", peek),
                    Err(_) => "panicked".to_string(),
                };
                facts().final_try_sync.push((o, txt));
            }
            release(o, d);
        }
    }

    facts().stage = Some(Stage::TeardownObjects);
    let n_outs = w().outs.len();
    for out in 0..n_outs {
        drop_out(out);
    }
    // higher-numbered objects first: operations only ever wait for objects with a higher number, so with no pool
    // thread the object whose queue somebody is waiting for gets drained (by its own drop) before the waiter's
    for o in (0..prog.n_objs).rev() {
        drop_table_ref(o);
    }
    kernel::await_quiescence();
    peek_all();

    facts().stage = Some(Stage::TeardownPool);
    w().cur_max = 0;
    scheduler().verif_set_max_threads(0);
    scheduler().despawn_threads_if_overloaded();
    facts().stage = Some(Stage::TeardownStatics);
    rt::statics::teardown();
    kernel::await_quiescence();
    facts().teardown_complete = true;
    facts().stage = Some(Stage::Done);
    // nothing that belongs to the simulated world may outlive it
    let world = w();
    world.handles.clear();
    for g in world.gates.iter_mut() {
        g.wakers.clear();
        g.stale.clear();
    }
    for st in world.streams.iter_mut() {
        st.waker = None;
        st.stale.clear();
    }
    let mut unreachable_values = vec![];
    for o in world.objs.iter_mut() {
        o.queue = None;
        o.weak = None;
        if o.is_raw && o.raw.is_none() && o.raw_queue_gone() && o.raw_val != 0 {
            // nobody can reach the value any more
            unreachable_values.push(o.raw_val);
            o.raw_val = 0;
        }
        o.raw_weak = None;
    }
    for p in unreachable_values {
        unsafe { drop(Box::from_raw(p as *mut Val)) };
    }
}

pub fn run_one(spec: &RunSpec) -> RunReport {
    let prog = spec.prog.clone();
    install(World::new(prog.clone()));
    let cfg = RunConfig {
        step_cap: spec.step_cap,
        initial_max_threads: prog.pool_max,
        spurious_cv_permille: prog.faults.spurious_cv_permille,
        spurious_park_permille: prog.faults.spurious_park_permille,
        sweep_fire_at: spec.sweep_fire_at,
    };
    let strategy: Box<dyn kernel::Strategy> = match &spec.replay {
        Some(ov) => {
            let mut ov = ov.clone();
            ov.sort();
            Box::new(rt::strategy::Replay { overrides: ov })
        }
        None => rt::strategy::build(&spec.strategy, spec.sched_seed),
    };
    let p2 = prog.clone();
    let result = kernel::run(cfg, strategy, move || controller(p2));
    let world = take().expect("world");
    let f = facts().clone();
    RunReport { result, world, facts: f }
}

impl Drop for RunReport {
    fn drop(&mut self) {
        if self.result.outcome != Outcome::Completed || !self.facts.teardown_complete {
            // leak the live parts of a dead world (handles, objects, wakers)
            let world = &mut *self.world;
            std::mem::forget(std::mem::take(&mut world.handles));
            std::mem::forget(std::mem::take(&mut world.objs));
            std::mem::forget(std::mem::take(&mut world.gates));
            std::mem::forget(std::mem::take(&mut world.streams));
            std::mem::forget(std::mem::take(&mut world.outs));
        }
    }
}
