//! Which scenario families decide which property, with their budgets.

use crate::gen::*;
use crate::ir::Program;
use desync_verif_rt::strategy::Rng;

pub struct Family {
    pub name: &'static str,
    pub what: &'static str,
    pub gen: fn(&mut Rng) -> Program,
    pub quick_runs: u64,
    pub thorough_runs: u64,
    /// > 0: cases come in groups of this many that share a program and differ in the injection position
    pub sweep_width: u64,
}

pub const STATE_NAMES: [&str; 8] = ["idle", "pending", "running", "waiting_for_wake", "waiting_for_unpark", "waiting_for_poll", "awoken_while_running", "panicked"];

fn g_mix(r: &mut Rng) -> Program {
    gen_general(r, &MIX)
}
fn g_late(r: &mut Rng) -> Program {
    gen_general(r, &LATE_POLL)
}
fn g_drain(r: &mut Rng) -> Program {
    gen_general(r, &DRAIN_STEAL)
}
fn g_bg(r: &mut Rng) -> Program {
    gen_general(r, &BACKGROUND)
}
fn g_kick(r: &mut Rng) -> Program {
    gen_general(r, &MIX_KICK)
}
fn g_sync(r: &mut Rng) -> Program {
    gen_general(r, &SYNC_STATES)
}
fn g_try(r: &mut Rng) -> Program {
    gen_general(r, &TRY)
}
fn g_handles(r: &mut Rng) -> Program {
    gen_general(r, &HANDLES)
}
fn g_fsync(r: &mut Rng) -> Program {
    gen_general(r, &FSYNC)
}
fn g_wake(r: &mut Rng) -> Program {
    gen_general(r, &WAKE)
}
fn g_suspend(r: &mut Rng) -> Program {
    gen_general(r, &SUSPEND)
}

const Q: u64 = 4_000_000;
const T: u64 = 120_000_000;

pub fn for_property(prop: &str) -> Vec<Family> {
    let f = |name, what, gen: fn(&mut Rng) -> Program, q, t| Family { name, what, gen, quick_runs: q, thorough_runs: t, sweep_width: 0 };
    match prop {
        "C01" => vec![f("mix", "all operation kinds over 1..3 objects from 1..4 threads, pool 0..3, yields and awaits inside operations", g_mix, Q, T)],
        "C02" => vec![
            f("mix", "all operation kinds, all pools", g_mix, Q / 2, T / 2),
            f("late-poll", "futures created early and polled late or never while other threads schedule", g_late, Q / 4, T / 4),
            f("drain-steal", "pool 0/1 so that sync callers drain and waiters steal", g_drain, Q / 4, T / 4),
        ],
        "C03" => vec![
            f("background", "only non-blocking scheduling calls; callers leave at once; the queue must run without a kick", g_bg, Q / 2, T / 2),
            f("mix-kick", "sync/try_sync callers and wakers racing with pool threads going dormant", g_kick, Q / 4, T / 4),
            f("mix", "all operation kinds, all pools", g_mix, Q / 4, T / 4),
        ],
        "C04" => vec![
            f("sync-states", "sync against every queue state, nested sync, saturated and empty pools", g_sync, Q / 2, T / 2),
            f("drain-steal", "pool 0/1 so that sync callers drain and waiters steal", g_drain, Q / 4, T / 4),
            f("mix", "all operation kinds, all pools", g_mix, Q / 4, T / 4),
        ],
        "C06" => vec![
            f("wake", "future operations suspended on gates under each runner context, wake-ups at every relative timing", g_wake, Q * 3 / 4, T * 3 / 4),
            f("late-poll", "futures created early and polled late or never while other threads schedule", g_late, Q / 4, T / 4),
        ],
        "C07" => vec![
            f("handles", "future_desync/after handles awaited, polled out of order, .sync()-ed, detached, dropped", g_handles, Q / 2, T / 2),
            f("late-poll", "futures created early and polled late or never while other threads schedule", g_late, Q / 4, T / 4),
            f("mix", "all operation kinds, all pools", g_mix, Q / 4, T / 4),
        ],
        "C08" => vec![
            f("fsync", "future_sync handles polled, dropped at any point, awaited, nested across objects", g_fsync, Q * 3 / 4, T * 3 / 4),
            f("mix", "all operation kinds, all pools", g_mix, Q / 4, T / 4),
        ],
        "C09" => vec![
            f("try", "try_sync racing every other operation kind and their completion paths", g_try, Q * 3 / 4, T * 3 / 4),
            f("mix-kick", "sync/try_sync callers and wakers racing with pool threads going dormant", g_kick, Q / 4, T / 4),
        ],
        "C13" => vec![f("suspend", "suspend, later scheduling calls, resume or drop of the resumer from any thread", g_suspend, Q, T)],
        _ => vec![],
    }
}

pub fn level_for(prop: &str) -> &'static str {
    match prop {
        _ => "exploration",
    }
}

/// Reach probes that must be non-zero in a batch, else the check reports a harness error.
pub fn required_probes(prop: &str) -> &'static [&'static str] {
    match prop {
        "C01" => &["ran_on_pool", "ran_on_caller", "gate_pending", "preemptions"],
        "C02" => &["ran_on_pool", "ran_on_caller", "preemptions"],
        "C03" => &["ran_on_pool", "preemptions", "nested_calls"],
        "C04" => &["sync_calls", "condvar_waits", "nested_calls"],
        "C06" => &["suspended_on_pool", "suspended_on_caller", "state_seen_awoken_while_running", "state_seen_waiting_for_unpark", "state_seen_waiting_for_poll", "state_seen_waiting_for_wake", "self_wakes", "stale_wakes"],
        "C07" => &["handle_drops_unresolved", "gate_pending"],
        "C08" => &["fsync_drop_before_poll", "fsync_drop_mid", "fsync_drop_waiting_slot"],
        "C09" => &["try_ok", "try_busy"],
        _ => &[],
    }
}
