//! Which scenario families decide which property, with their budgets.

use crate::gen::*;
use crate::gen2::*;
use crate::ir::{Op, OpKind, Program};
use desync_verif_rt::strategy::Rng;

pub struct Family {
    pub name: &'static str,
    pub what: &'static str,
    pub gen: fn(&mut Rng) -> Program,
    pub quick_runs: u64,
    pub thorough_runs: u64,
    /// > 0: cases come in groups of this many that share a program and differ in the injection position
    pub sweep_width: u64,
    /// the position selects a variant of the program (which operation panics) instead of a scheduling point
    pub gen_at: Option<fn(&mut Rng, u64) -> Program>,
}

pub const STATE_NAMES: [&str; 8] = ["idle", "pending", "running", "waiting_for_wake", "waiting_for_unpark", "waiting_for_poll", "awoken_while_running", "panicked"];

fn g_mix(r: &mut Rng) -> Program {
    gen_general(r, &MIX)
}
/// The same mixed programs on bare job queues (scheduler-level functions); the harness gives its handle of each queue up at
/// some point while work may still be queued, running or suspended.
fn g_raw(r: &mut Rng) -> Program {
    let mut p = gen_general(r, &RAW);
    p.raw_objs = (0..p.n_objs).collect();
    let mut next_id = p.max_op_id() + 1;
    for o in 0..p.n_objs {
        if r.permille(700) {
            let nt = p.phases[0].threads.len();
            if nt == 0 {
                continue;
            }
            let t = r.below(nt as u64) as usize;
            // anywhere in the thread: later calls of that object become no-ops only for ops that look the handle up afterwards
            let pos = r.range(0, p.phases[0].threads[t].len() as u64) as usize;
            p.phases[0].threads[t].insert(pos, Op { id: next_id, k: OpKind::DropObj { o } });
            next_id += 1;
        }
    }
    p
}
fn g_late(r: &mut Rng) -> Program {
    gen_general(r, &LATE_POLL)
}
fn g_drain(r: &mut Rng) -> Program {
    gen_general(r, &DRAIN_STEAL)
}
fn g_bg(r: &mut Rng) -> Program {
    gen_general(r, &BACKGROUND)
}
fn g_kick(r: &mut Rng) -> Program {
    gen_general(r, &MIX_KICK)
}
fn g_sync(r: &mut Rng) -> Program {
    gen_general(r, &SYNC_STATES)
}
fn g_try(r: &mut Rng) -> Program {
    gen_general(r, &TRY)
}
fn g_handles(r: &mut Rng) -> Program {
    gen_general(r, &HANDLES)
}
fn g_fsync(r: &mut Rng) -> Program {
    gen_general(r, &FSYNC)
}
fn g_wake(r: &mut Rng) -> Program {
    gen_general(r, &WAKE)
}
fn g_suspend(r: &mut Rng) -> Program {
    gen_general(r, &SUSPEND)
}
fn g_panic_sweep(r: &mut Rng, pos: u64) -> Program {
    gen_panic_variant(r, pos)
}

const Q: u64 = 4_000_000;
const T: u64 = 120_000_000;

pub fn for_property(prop: &str) -> Vec<Family> {
    let f = |name, what, gen: fn(&mut Rng) -> Program, q, t| Family { name, what, gen, quick_runs: q, thorough_runs: t, sweep_width: 0, gen_at: None };
    let sw = |name, what, gen: fn(&mut Rng) -> Program, q, t, width| Family { name, what, gen, quick_runs: q, thorough_runs: t, sweep_width: width, gen_at: None };
    match prop {
        "C01" => vec![
            f("mix", "all operation kinds over 1..3 objects from 1..4 threads, pool 0..3, yields and awaits inside operations", g_mix, Q * 7 / 8, T * 7 / 8),
            f("raw-queue", "the same operation kinds on bare job queues through the scheduler-level functions; the harness gives its queue handle up while work is queued, running or suspended (nothing waits for a bare queue: accepted work must still run)", g_raw, Q / 8, T / 8),
        ],
        "C02" => vec![
            f("mix", "all operation kinds, all pools", g_mix, Q * 3 / 8, T * 3 / 8),
            f("late-poll", "futures created early and polled late or never while other threads schedule", g_late, Q / 4, T / 4),
            f("drain-steal", "pool 0/1 so that sync callers drain and waiters steal", g_drain, Q / 4, T / 4),
            f("raw-queue", "the same operation kinds on bare job queues through the scheduler-level functions; the harness gives its queue handle up while work is queued, running or suspended (nothing waits for a bare queue: accepted work must still run)", g_raw, Q / 8, T / 8),
        ],
        "C03" => vec![
            f("background", "only non-blocking scheduling calls; callers leave at once; the queue must run without a kick", g_bg, Q / 2, T / 2),
            f("mix-kick", "sync/try_sync callers and wakers racing with pool threads going dormant", g_kick, Q / 4, T / 4),
            f("mix", "all operation kinds, all pools", g_mix, Q / 8, T / 8),
            f("raw-queue", "the same operation kinds on bare job queues through the scheduler-level functions; the harness gives its queue handle up while work is queued, running or suspended (nothing waits for a bare queue: accepted work must still run)", g_raw, Q / 8, T / 8),
        ],
        "C04" => vec![
            f("sync-states", "sync against every queue state, nested sync, saturated and empty pools", g_sync, Q / 2, T / 2),
            f("drain-steal", "pool 0/1 so that sync callers drain and waiters steal", g_drain, Q / 4, T / 4),
            f("mix", "all operation kinds, all pools", g_mix, Q / 4, T / 4),
        ],
        "C05" => vec![
            f("drop", "last owner dropped by callers and by jobs of other objects while work is queued, running, suspended or being woken", gen_drop, Q * 3 / 8, T * 3 / 8),
            sw("drop-wake-sweep", "no pool thread: the dropping thread runs the queue itself; the wake-up of the suspended operation it waits for is injected at each of its scheduling points", gen_drop_wake_sweep, Q / 8, T / 8, 48),
            sw("drop-sweep", "drop of the last owner injected at every scheduling point of the context running the object's jobs", gen_drop_sweep, Q * 3 / 8, T * 3 / 8, 64),
            f("pipe-drop", "the pipe's own strong reference as the last owner: released through the drop of the output stream", gen_pipe_drop, Q / 8, T / 8),
        ],
        "C06" => vec![
            f("wake", "future operations suspended on gates under each runner context, wake-ups at every relative timing", g_wake, Q * 3 / 8, T * 3 / 8),
            f("late-poll", "futures created early and polled late or never while other threads schedule", g_late, Q / 4, T / 4),
            sw("wake-sweep", "the wake-up injected at every scheduling point of the suspending context (pool thread / thread inside sync / polling task), with and without stale, duplicate and self wakes", gen_wake_sweep, Q / 4, T / 4, 48),
            f("suspend", "the suspension job is itself a suspended future operation: resume must restart the queue under every runner", g_suspend, Q / 8, T / 8),
        ],
        "C07" => vec![
            f("handles", "future_desync/after handles awaited, polled out of order, .sync()-ed, detached, dropped", g_handles, Q * 3 / 8, T * 3 / 8),
            f("nested-saturated", "every pool thread is inside a job that awaits a future of another, untouched object: the polling thread has to run that object's queue itself", gen_nested_saturated, Q / 8, T / 8),
            f("late-poll", "futures created early and polled late or never while other threads schedule", g_late, Q / 4, T / 4),
            f("mix", "all operation kinds, all pools", g_mix, Q / 8, T / 8),
            f("raw-queue", "the same operation kinds on bare job queues through the scheduler-level functions; the harness gives its queue handle up while work is queued, running or suspended (nothing waits for a bare queue: accepted work must still run)", g_raw, Q / 8, T / 8),
        ],
        "C08" => vec![
            f("fsync", "future_sync handles polled, dropped at any point, awaited, nested across objects", g_fsync, Q * 3 / 8, T * 3 / 8),
            f("nested-saturated", "every pool thread is inside a job that awaits a future of another, untouched object: the polling thread has to run that object's queue itself", gen_nested_saturated, Q / 8, T / 8),
            f("mix", "all operation kinds, all pools", g_mix, Q / 4, T / 4),
            sw("fsync-drop-sweep", "the owner drops the future_sync future when the queue's runner is at each of its scheduling points on the way to, inside and past the slot", gen_fsync_drop_sweep, Q / 4, T / 4, 64),
        ],
        "C10" => vec![
            f("isolate", "k objects blocked on gates that stay closed, pool maximum above the number of stalled threads, other objects must finish before the gates open", gen_isolate, Q * 7 / 8, T * 7 / 8),
            f("isolate-raise", "work piles up on several objects while no pool thread is allowed; set_max_threads then raises the maximum above the number of jobs that stall a thread: the other objects must finish", gen_isolate_raise, Q / 8, T / 8),
        ],
        "C11" => vec![
            f("pipe-in", "pipe_in with items arriving before/during/after polls (single items and bursts), concurrent sync/desync/futures on the target (awaited, detached, polled once and abandoned), the target dropped while the stream is open", gen_pipe_in, Q / 2, T / 2),
            f("pipe-chain-out", "pipe_in fed by the output stream of a pipe (and pipe into pipe), run to the end", gen_pipe_chain_out, Q / 8, T / 8),
            sw("pipe-in-drop-sweep", "the last owner of the target released at every scheduling point of the context polling the input, through bursts of up to 14 ready items", gen_pipe_in_drop_sweep, Q / 4, T / 4, 160),
            sw("pipe-in-wake-drop-sweep", "the last owner of the target released at every scheduling point of the thread that notifies the input (where the pipe briefly upgrades its weak reference), with every pool thread stalled", gen_pipe_in_wake_drop_sweep, Q / 8, T / 8, 64),
        ],
        "C12" => vec![
            f("pipe-out", "pipe with depth 1..5, consumer reading by blocking and by single polls (and changing the depth in mid-stream), producer pushing and closing", gen_pipe_out, Q * 5 / 8, T * 5 / 8),
            sw("pipe-read-sweep", "a read by the consumer (the back-pressure release) injected at every scheduling point of the context polling the input, items arriving one at a time so that the producer is throttled again and again", gen_pipe_read_sweep, Q / 8, T / 8, 64),
            f("pipe-chain-out", "two pipes chained and run to the end (pipe into pipe, pipe into pipe_in): the consumer of the first stage is another pipe, itself throttled now and then", gen_pipe_chain_out, Q / 4, T / 4),
        ],
        "C14" => vec![
            f("mix", "all operation kinds; closures and captures carry scope canaries and drop probes", g_mix, Q / 8, T / 8),
            f("fsync", "future_sync futures dropped at any point; their closures and futures must be gone with them", g_fsync, Q / 8, T / 8),
            f("drop", "last owner dropped under load; no operation may touch the value afterwards", gen_drop, Q / 8, T / 8),
            Family { name: "panic", what: "an operation panics with work queued behind it; afterwards the object is used, waited for and released (also by a thread that is itself unwinding): nothing left in the dead queue may ever run or be touched", gen: gen_panic, quick_runs: Q / 16, thorough_runs: T / 16, sweep_width: 11, gen_at: Some(g_panic_sweep) },
        ],
        "C15" => vec![
            Family { name: "panic", what: "one operation panics (the position enumerates 11 kinds of operation x runner context); afterwards every kind of call on the panicked object, ordinary programs on healthy objects, and a capacity probe", gen: gen_panic, quick_runs: Q / 2, thorough_runs: T / 2, sweep_width: 11, gen_at: Some(g_panic_sweep) },
        ],
        "C16" => vec![
            f("pipe-drop", "output stream dropped while the input stays open and silent", gen_pipe_drop, Q * 3 / 8, T * 3 / 8),
            sw("pipe-drop-sweep", "the drop of the output injected at every scheduling point of the context polling the input", gen_pipe_drop_sweep, Q / 2, T / 2, 64),
            f("pipe-chain", "two pipes chained (pipe into pipe, pipe into pipe_in): the first pipe's output is dropped from wherever the second pipe is shut down; sole-owner variants", gen_pipe_chain, Q / 8, T / 8),
        ],
        "C17" => vec![
            f("pool", "maximum 0..3 lazily grown, threads racing to spawn, limit raised/lowered/extra threads/despawn between phases", gen_pool, Q * 3 / 8, T * 3 / 8),
            f("pool-panic", "pool threads have died of panicking jobs; several threads then schedule work at once, so that reaping, replacing and waking race", gen_pool_panic, Q / 8, T / 8),
        ],
        "C09" => vec![
            f("try", "try_sync racing every other operation kind and their completion paths", g_try, Q * 5 / 8, T * 5 / 8),
            f("mix-kick", "sync/try_sync callers and wakers racing with pool threads going dormant", g_kick, Q / 4, T / 4),
            sw("try-sweep", "try_sync landing at every scheduling point of the context that runs the object's queue (pool thread, caller inside sync, polling task)", gen_try_sweep, Q / 8, T / 8, 48),
        ],
        "C13" => vec![
            f("suspend", "suspend, later scheduling calls, resume or drop of the resumer from any thread", g_suspend, Q * 5 / 8, T * 5 / 8),
            f("suspend-saturated", "every pool thread stalled: one context suspends and resumes, others sync during the suspension and must complete after it", gen_suspend_saturated, Q / 4, T / 4),
            sw("resume-sweep", "the resumer used or dropped at every scheduling point of the context that holds the suspension (a pool thread, or a sync caller that took the suspended queue over with the pool stalled)", gen_resume_sweep, Q / 8, T / 8, 48),
        ],
        _ => vec![],
    }
}

pub fn level_for(prop: &str) -> &'static str {
    match prop {
        "C05" | "C06" | "C08" | "C15" | "C16" => "fault_enumeration",
        _ => "exploration",
    }
}

/// Reach probes that must be non-zero in a batch, else the check reports a harness error.
pub fn required_probes(prop: &str) -> &'static [&'static str] {
    match prop {
        "C01" => &["ran_on_pool", "ran_on_caller", "gate_pending", "preemptions"],
        "C02" => &["ran_on_pool", "ran_on_caller", "preemptions"],
        "C03" => &["ran_on_pool", "preemptions", "nested_calls"],
        "C04" => &["sync_calls", "condvar_waits", "nested_calls"],
        "C06" => &["suspended_on_pool", "suspended_on_caller", "state_seen_awoken_while_running", "state_seen_waiting_for_unpark", "state_seen_waiting_for_poll", "state_seen_waiting_for_wake", "self_wakes", "stale_wakes"],
        "C07" => &["handle_drops_unresolved", "gate_pending"],
        "C08" => &["fsync_drop_before_poll", "fsync_drop_mid", "fsync_drop_waiting_slot"],
        "C09" => &["try_ok", "try_busy", "sweep_injections_fired"],
        "C05" => &["drops_by_caller", "drops_by_pool", "sweep_injections_fired", "drops_while_panicking"],
        "C10" => &["block_on"],
        "C11" => &["stream_pending", "sweep_injections_fired"],
        "C12" => &["out_pending", "stream_pending", "depth_changes", "sweep_injections_fired", "pipe_backpressure"],
        "C15" => &["panics_injected", "panic_on_pool", "panic_on_caller", "calls_on_panicked"],
        "C16" => &["sweep_injections_fired", "kept_wakers"],
        "C13" => &["sweep_injections_fired"],
        "C17" => &["pool_threads_spawned"],
        "C14" => &["fsync_drop_mid", "drops_by_pool", "try_busy"],
        _ => &[],
    }
}
