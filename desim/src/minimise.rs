//! Known findings, and minimisation of a failing (program, schedule) pair.

use crate::ir::*;
use crate::oracle;
use crate::sim::{self, RunSpec};
use crate::world::{Violation, World};
use crate::{Case, ReplayFile, SCHEDULE_DEFAULT, STEP_CAP};
use desync_verif_rt::strategy::{Rng, StrategyKind};
use serde::{Deserialize, Serialize};
use std::sync::Arc;
use std::time::{Duration, Instant};

#[derive(Clone, Debug, Serialize, Deserialize)]
pub struct KnownFinding {
    pub property: String,
    /// "known" (suppressed, reported as KNOWN-FINDING) or "fixed" (suppresses nothing)
    pub status: String,
    /// violation kind this finding is identified by
    #[serde(default)]
    pub kind: String,
    /// substring that must occur in the violation message ("" = any)
    #[serde(default)]
    pub message_contains: String,
    pub what: String,
    #[serde(default)]
    pub commit: String,
}

pub fn load_known_findings() -> Vec<KnownFinding> {
    let root = std::env::var("DESIM_VERIF_ROOT").unwrap_or("/verif".into());
    let p = format!("{}/known_findings.json", root);
    match std::fs::read_to_string(&p) {
        Ok(s) => {
            #[derive(Deserialize)]
            struct F {
                findings: Vec<KnownFinding>,
            }
            serde_json::from_str::<F>(&s).map(|f| f.findings).unwrap_or_default()
        }
        Err(_) => vec![],
    }
}

pub fn is_known(known: &[KnownFinding], v: &Violation, _w: &World) -> bool {
    known.iter().any(|k| k.status == "known" && k.property == v.prop && k.kind == v.kind && (k.message_contains.is_empty() || v.msg.contains(&k.message_contains)))
}

struct Repro {
    overrides: Vec<(u64, u32)>,
    violation: Violation,
    steps: u64,
    tail: Vec<String>,
}

struct Ctx<'a> {
    prop: &'a str,
    kind: &'a str,
    sweep: Option<u64>,
    runs: u64,
    deadline: Instant,
}

impl<'a> Ctx<'a> {
    fn run(&mut self, prog: &Arc<Program>, replay: Option<Vec<(u64, u32)>>, strategy: StrategyKind, seed: u64) -> Option<Repro> {
        self.runs += 1;
        let spec = RunSpec { prog: prog.clone(), strategy, sched_seed: seed, replay, sweep_fire_at: self.sweep, step_cap: STEP_CAP };
        let rep = sim::run_one(&spec);
        let verdict = oracle::analyse(&rep);
        let hit = verdict.violations.iter().find(|x| x.prop == self.prop && x.kind == self.kind)?.clone();
        Some(Repro { overrides: rep.result.deviations.clone(), violation: hit, steps: rep.result.counters.steps, tail: crate::events_tail(&rep.world, 40) })
    }

    fn out_of_time(&self) -> bool {
        Instant::now() > self.deadline
    }

    /// does this program still fail the same way: first under the known schedule, then under fresh ones
    fn try_prog(&mut self, prog: &Program, ov: &[(u64, u32)], rng: &mut Rng, tries: u32) -> Option<Repro> {
        let p = Arc::new(prog.clone());
        if let Some(r) = self.run(&p, Some(ov.to_vec()), StrategyKind::Uniform, 0) {
            return Some(r);
        }
        for t in 0..tries {
            if self.out_of_time() {
                return None;
            }
            let st = match t % 4 {
                0 => StrategyKind::Delay { k: 1 + (t / 4) % 4, expected_decisions: 40 },
                1 => StrategyKind::Sticky(100),
                2 => StrategyKind::Uniform,
                _ => StrategyKind::Sticky(350),
            };
            if let Some(r) = self.run(&p, None, st, rng.next()) {
                return Some(r);
            }
        }
        None
    }
}

fn remove_step_variants(op: &Op, out: &mut Vec<Op>) {
    if let Some(b) = op.body() {
        for i in 0..b.len() {
            let mut o2 = op.clone();
            let body = o2.body_mut().unwrap();
            let removed = body.remove(i);
            out.push(o2);
            // a nested operation may itself be simplified
            if let Step::Nested(n) = removed {
                let mut inner = vec![];
                remove_step_variants(&n, &mut inner);
                for v in inner {
                    let mut o3 = op.clone();
                    o3.body_mut().unwrap()[i] = Step::Nested(Box::new(v));
                    out.push(o3);
                }
            } else if let Step::Yield(n) = removed {
                if n > 1 {
                    let mut o3 = op.clone();
                    o3.body_mut().unwrap()[i] = Step::Yield(1);
                    out.push(o3);
                }
            }
        }
    }
}

fn candidates(p: &Program) -> Vec<Program> {
    let mut out = vec![];
    // drop whole later phases, then threads, then env threads
    for pi in (1..p.phases.len()).rev() {
        let mut q = p.clone();
        q.phases.remove(pi);
        out.push(q);
    }
    for pi in 0..p.phases.len() {
        for ti in 0..p.phases[pi].threads.len() {
            let mut q = p.clone();
            q.phases[pi].threads.remove(ti);
            out.push(q);
        }
        if !p.phases[pi].env_gates.is_empty() {
            let mut q = p.clone();
            q.phases[pi].env_gates.clear();
            out.push(q);
        }
        if !p.phases[pi].env_streams.is_empty() {
            let mut q = p.clone();
            q.phases[pi].env_streams.clear();
            out.push(q);
        }
        if !p.phases[pi].ctl.is_empty() {
            for ci in 0..p.phases[pi].ctl.len() {
                let mut q = p.clone();
                q.phases[pi].ctl.remove(ci);
                out.push(q);
            }
        }
    }
    if p.faults != Faults::default() {
        let mut q = p.clone();
        q.faults = Faults::default();
        out.push(q);
    }
    if p.prespawn {
        let mut q = p.clone();
        q.prespawn = false;
        out.push(q);
    }
    // single operations
    for pi in 0..p.phases.len() {
        for ti in 0..p.phases[pi].threads.len() {
            for oi in 0..p.phases[pi].threads[ti].len() {
                let mut q = p.clone();
                q.phases[pi].threads[ti].remove(oi);
                out.push(q);
            }
        }
        for oi in 0..p.phases[pi].env_gates.len() {
            let mut q = p.clone();
            q.phases[pi].env_gates.remove(oi);
            out.push(q);
        }
        for oi in 0..p.phases[pi].env_streams.len() {
            let mut q = p.clone();
            q.phases[pi].env_streams.remove(oi);
            out.push(q);
        }
    }
    // steps inside bodies
    for pi in 0..p.phases.len() {
        for ti in 0..p.phases[pi].threads.len() {
            for oi in 0..p.phases[pi].threads[ti].len() {
                let mut vs = vec![];
                remove_step_variants(&p.phases[pi].threads[ti][oi], &mut vs);
                for v in vs {
                    let mut q = p.clone();
                    q.phases[pi].threads[ti][oi] = v;
                    out.push(q);
                }
            }
        }
    }
    out
}

pub fn minimise_and_package(prop: &str, seed: u64, case: &Case, rep: &sim::RunReport, v: &Violation, secs: u64) -> ReplayFile {
    let mut ctx = Ctx { prop, kind: &v.kind, sweep: case.sweep_fire_at, runs: 0, deadline: Instant::now() + Duration::from_secs(secs) };
    let mut rng = Rng::new(case.run_seed ^ 0x6d696e);
    let original_ops = case.prog.op_count();
    let original_overrides = rep.result.deviations.len();
    let mut prog: Program = (*case.prog).clone();
    let mut best = match ctx.run(&case.prog, Some(rep.result.deviations.clone()), StrategyKind::Uniform, 0) {
        Some(r) => r,
        None => {
            // must not happen: the recorded schedule is the run
            Repro { overrides: rep.result.deviations.clone(), violation: Violation { msg: format!("[REPLAY MISMATCH] {}", v.msg), ..v.clone() }, steps: rep.result.counters.steps, tail: crate::events_tail(&rep.world, 40) }
        }
    };
    // 1. shrink the program
    let mut progress = true;
    while progress && !ctx.out_of_time() {
        progress = false;
        for cand in candidates(&prog) {
            if ctx.out_of_time() {
                break;
            }
            if let Some(r) = ctx.try_prog(&cand, &best.overrides, &mut rng, 48) {
                prog = cand;
                best = r;
                progress = true;
                break;
            }
        }
    }
    // 2. look for a schedule with fewer deviations from the default policy
    let parc = Arc::new(prog.clone());
    'k: for k in 0..5u32 {
        if (k as usize) >= best.overrides.len() {
            break;
        }
        for _ in 0..150 {
            if ctx.out_of_time() {
                break 'k;
            }
            let exp = (best.steps / 3).max(8);
            if let Some(r) = ctx.run(&parc, None, StrategyKind::Delay { k, expected_decisions: exp }, rng.next()) {
                if r.overrides.len() < best.overrides.len() {
                    best = r;
                    break 'k;
                }
            }
        }
    }
    // 3. delete overrides one chunk at a time while the failure stays
    let mut chunk = (best.overrides.len() / 2).max(1);
    while chunk >= 1 && !best.overrides.is_empty() && !ctx.out_of_time() {
        let mut i = 0;
        let mut removed_any = false;
        while i < best.overrides.len() && !ctx.out_of_time() {
            let mut ov = best.overrides.clone();
            let end = (i + chunk).min(ov.len());
            ov.drain(i..end);
            match ctx.run(&parc, Some(ov), StrategyKind::Uniform, 0) {
                Some(r) if r.overrides.len() < best.overrides.len() => {
                    best = r;
                    removed_any = true;
                }
                _ => i += chunk,
            }
        }
        if chunk == 1 && !removed_any {
            break;
        }
        chunk = if chunk > 1 { chunk / 2 } else { 1 };
    }
    // final confirmation: the packaged pair must reproduce the packaged record
    let confirm = ctx.run(&parc, Some(best.overrides.clone()), StrategyKind::Uniform, 0);
    let violation = match confirm {
        Some(r) if r.violation == best.violation => r.violation,
        Some(r) => r.violation,
        None => Violation { msg: format!("[REPLAY MISMATCH] {}", best.violation.msg), ..best.violation.clone() },
    };
    ReplayFile {
        property: prop.to_string(),
        family: case.family.to_string(),
        verif_seed: seed,
        run_index: case.index,
        run_seed: case.run_seed,
        program: prog,
        schedule_default: SCHEDULE_DEFAULT.to_string(),
        overrides: best.overrides,
        sweep_fire_at: case.sweep_fire_at,
        violation,
        events_tail: best.tail,
        original_ops,
        original_overrides,
        minimise_runs: ctx.runs,
        steps: best.steps,
    }
}
