//! Interpreter: executes program operations against the real desync API and stamps the history.

use crate::ir::*;
use crate::world::*;
use desync::scheduler::scheduler;
use desync::{pipe, pipe_in, Desync};
use desync_verif_rt as rt;
use futures::channel::oneshot::Canceled;
use futures::future::BoxFuture;
use futures::{FutureExt, Stream};
use rt::kernel::catch_unwind;
use std::future::Future;
use std::pin::Pin;
use std::sync::Arc;
use std::task::{Context, Poll};

pub const PIPE_ITEM_FLAG: u32 = 0x8000_0000;

pub fn item_key(s: usize, idx: usize) -> u32 {
    PIPE_ITEM_FLAG | ((s as u32) << 16) | (idx as u32 & 0xffff)
}

pub fn out_value(item: u32) -> u64 {
    item as u64 * 3 + 7
}

fn panic_msg(e: &Box<dyn std::any::Any + Send>) -> String {
    if let Some(s) = e.downcast_ref::<&str>() {
        s.to_string()
    } else if let Some(s) = e.downcast_ref::<String>() {
        s.clone()
    } else {
        "<panic>".to_string()
    }
}

pub fn obj(o: usize) -> Option<Arc<Desync<Val>>> {
    w().objs.get(o).and_then(|s| s.arc.clone())
}

fn is_pool_task() -> bool {
    let me = me();
    rt::kernel::with(|k| k.tasks[me].pool).unwrap_or(false)
}

fn blocks_now() -> u64 {
    let (a, b) = rt::kernel::task_blocks(me());
    a + b
}

/// Releases an owner of object `o`; if it is the last one `Desync::drop` runs here and is stamped.
pub fn release(o: usize, arc: Arc<Desync<Val>>) {
    if Arc::strong_count(&arc) == 1 {
        cover_at(|c| &mut c.at_owner_drop, o);
        let s = ev("drop_inv", o as i64, 0);
        let pool = is_pool_task();
        {
            let world = w();
            world.objs[o].drop_inv = Some(s);
            world.objs[o].dropper = Some(me());
            if pool {
                world.cover.drops_by_pool += 1;
            } else {
                world.cover.drops_by_caller += 1;
            }
        }
        let r = catch_unwind(move || drop(arc));
        let s = ev("drop_ret", o as i64, r.is_err() as i64);
        w().objs[o].drop_ret = Some(s);
        if let Err(e) = r {
            let m = panic_msg(&e);
            w().notes.push(format!("drop of object {} panicked: {}", o, m));
            if rt::thread::panicking() {
                // the owner was released by a thread that was already unwinding: outside the harness (which catches the second
                // panic in order to go on) this is a panic inside a destructor during unwinding, and the process aborts
                let prop = if w().objs[o].panic_injected { "C15" } else { "C05" };
                violation(prop, "drop_panicked_while_unwinding", &[], format!("dropping object {} on a thread that was already unwinding raised a second panic ({}): the process would abort", o, m));
            }
        }
    } else {
        drop(arc);
    }
}

pub fn drop_table_ref(o: usize) {
    if is_raw(o) {
        let q = w().objs[o].raw.take();
        if let Some(q) = q {
            let s = ev("table_drop", o as i64, 1);
            w().objs[o].table_dropped_at = Some(s);
            drop(q);
        }
        return;
    }
    let a = {
        let world = w();
        if o >= world.objs.len() {
            return;
        }
        world.objs[o].arc.take()
    };
    if let Some(a) = a {
        let s = ev("table_drop", o as i64, 0);
        w().objs[o].table_dropped_at = Some(s);
        release(o, a);
    }
}

fn call_begin(id: u32) -> u64 {
    let b = blocks_now();
    let s = ev("inv", id as i64, 0);
    let me = me();
    {
        let (kind, o) = { let r = &w().ops[id as usize]; (r.kind, r.obj) };
        if let Some(o) = o {
            let f: Option<fn(&mut Cover) -> &mut [u64; 8]> = match kind {
                Kind::Desync => Some(|c| &mut c.at_desync),
                Kind::Sync => Some(|c| &mut c.at_sync),
                Kind::TrySync => Some(|c| &mut c.at_try_sync),
                Kind::FutureDesync => Some(|c| &mut c.at_future_desync),
                Kind::After => Some(|c| &mut c.at_after),
                Kind::FutureSync => Some(|c| &mut c.at_future_sync),
                Kind::Suspend => Some(|c| &mut c.at_suspend),
                Kind::PipeIn => Some(|c| &mut c.at_pipe_in),
                Kind::Pipe => Some(|c| &mut c.at_pipe),
                Kind::Other => None,
            };
            if let Some(f) = f {
                cover_at(f, o);
            }
        }
    }
    let st = w().ops[id as usize].obj.and_then(|o| w().objs.get(o).and_then(|x| x.peek())).map(|p| (p.0, p.1));
    let r = &mut w().ops[id as usize];
    r.state_at_inv = st;
    r.inv = Some(s);
    r.thread = Some(me);
    r.outcome = CallOutcome::InCall;
    b
}

fn call_end(id: u32, blocks_before: u64, outcome: CallOutcome) {
    let b = blocks_now();
    let code = match &outcome {
        CallOutcome::Returned(_) => 0,
        CallOutcome::Busy => 1,
        CallOutcome::Panicked(_) => 2,
        _ => 3,
    };
    let s = ev("ret", id as i64, code);
    {
        let world = w();
        if code == 2 && world.ops[id as usize].obj.map_or(false, |o| world.objs[o].panic_injected) && !world.ops[id as usize].injects_panic {
            world.cover.calls_on_panicked += 1;
        }
    }
    let r = &mut w().ops[id as usize];
    r.ret = Some(s);
    r.outcome = outcome;
    r.blocks_in_call = b - blocks_before;
}

fn skip(id: u32) {
    w().ops[id as usize].outcome = CallOutcome::Skipped;
}

// ---- being inside an object ---------------------------------------------------------------

pub struct Inside {
    val: *mut Val,
    o: usize,
    key: u32,
    chain_at_entry: u64,
    stream_item: Option<(usize, usize)>,
    /// the operation is being run by a thread that was already unwinding (a Desync dropped during a panic)
    panicking_at_entry: bool,
    /// set just before the operation leaves the object in the ordinary way
    pub completed: bool,
}

unsafe impl Send for Inside {}

pub fn enter(val: *mut Val, o: usize, key: u32, stream_item: Option<(usize, usize)>) -> Inside {
    {
        let world = w();
        if world.objs[o].value_drops > 0 {
            // do not touch the value: it is gone
            violation("C05", "operation_started_after_value_destroyed", &[key], format!("operation {} on object {} was started after the protected value had been destroyed", key, o));
            violation("C14", "value_used_after_free", &[key], format!("operation {} would access the freed value of object {}", key, o));
            if world.objs[o].panic_injected {
                violation("C15", "dead_queue_ran_later", &[key], format!("operation {} had been left in the queue of panicked object {}; it was started after the object had been released and its value freed", key, o));
            }
            crate::sim::abandon("value used after destruction");
        }
    }
    let pool = is_pool_task();
    let s = ev("start", key as i64, o as i64);
    let world = w();
    if let Some((st, idx)) = stream_item {
        let item = key & 0xffff;
        let _ = idx;
        world.streams[st].processed.push((item, s, None));
    } else {
        let me = me();
        let r = &mut world.ops[key as usize];
        r.starts += 1;
        if r.start.is_none() {
            r.start = Some(s);
        }
        r.runner = Some(me);
        r.runner_pool = pool;
        if r.starts > 1 {
            violation("C03", "operation_ran_twice", &[key], format!("operation {} was started {} times", key, r.starts));
        }
    }
    let world = w();
    if pool {
        world.cover.ran_on_pool += 1;
    } else {
        world.cover.ran_on_caller += 1;
    }
    if let Some(occ) = world.objs[o].occupant {
        violation("C01", "overlap", &[key, occ], format!("operation {} entered object {} while operation {} was still inside", key, o, occ));
    }
    w().objs[o].occupant = Some(key);
    let v = unsafe { &mut *val };
    if v.o != o {
        violation("C14", "wrong_value", &[key], format!("operation {} on object {} was handed the value of object {}", key, o, v.o));
    }
    v.occupant = Some(key);
    Inside { val, o, key, chain_at_entry: v.chain, stream_item, panicking_at_entry: rt::kernel::panicking(), completed: false }
}

impl Drop for Inside {
    fn drop(&mut self) {
        if !rt::kernel::in_sim() {
            return;
        }
        let _ = self.panicking_at_entry;
        let panicking = !self.completed && rt::kernel::panicking();
        let s = ev("fin", self.key as i64, panicking as i64);
        let world = w();
        if world.objs[self.o].value_drops > 0 {
            violation("C05", "value_destroyed_during_operation", &[self.key], format!("value of object {} was destroyed while operation {} was inside", self.o, self.key));
            violation("C14", "value_used_after_free", &[self.key], format!("operation {} outlived the value of object {}", self.key, self.o));
            // leave the freed value alone
            return;
        }
        let v = unsafe { &mut *self.val };
        // read at entry, write at exit: an overlapping operation makes one update disappear
        v.chain = chain_mix(self.chain_at_entry, self.key);
        v.log.push(self.key);
        v.occupant = None;
        if world.objs[self.o].occupant == Some(self.key) {
            world.objs[self.o].occupant = None;
        }
        if let Some((st, _)) = self.stream_item {
            let item = self.key & 0xffff;
            if let Some(p) = world.streams[st].processed.iter_mut().rev().find(|p| p.0 == item && p.2.is_none()) {
                p.2 = Some(s);
            }
        } else {
            let r = &mut world.ops[self.key as usize];
            r.fin = Some(s);
            r.waiting_gate = None;
            if r.fin_kind == FinKind::None {
                r.fin_kind = if self.completed { FinKind::Normal } else if panicking { FinKind::Panicked } else { FinKind::Cancelled };
            }
        }
    }
}

fn run_steps_sync(o: usize, id: u32, body: &[Step]) {
    for s in body {
        match s {
            Step::Yield(n) => {
                for _ in 0..*n {
                    rt::kernel::point();
                }
            }
            Step::AwaitGate(g) | Step::BlockOn(g) => gate_block_on(*g),
            Step::AwaitAny(g, _) => gate_block_on(*g),
            Step::OpenGate(g) => gate_open(*g),
            Step::Nested(op) => {
                w().cover.nested_calls += 1;
                exec_op(op);
            }
            Step::DropObj(o2) => drop_table_ref(*o2),
            Step::Panic => {
                let pool = is_pool_task();
                let sq = ev("panic", id as i64, o as i64);
                let world = w();
                world.objs[o].panic_injected = true;
                world.objs[o].panic_at = Some(sq);
                world.cover.panics_injected += 1;
                if pool {
                    world.cover.panic_on_pool += 1;
                } else {
                    world.cover.panic_on_caller += 1;
                }
                panic!("injected panic in operation {}", id);
            }
            Step::Push(st, item) => stream_push(*st, *item),
            Step::CloseStream(st) => stream_close(*st),
            Step::Mark => rt::kernel::sweep_mark(),
            Step::WakeSelf => {}
        }
    }
}

pub fn run_sync_body(val: &mut Val, o: usize, id: u32, body: &[Step]) -> u64 {
    let mut inside = enter(val as *mut Val, o, id, None);
    let b0 = blocks_now();
    run_steps_sync(o, id, body);
    // waiting done by the closure itself (nested calls) is not waiting done by the call that runs it
    w().ops[id as usize].blocks_inside += blocks_now() - b0;
    inside.completed = true;
    token(id)
}

// ---- future bodies ----------------------------------------------------------------------

pub struct GateFut {
    pub g: usize,
    pub key: u32,
}

impl Future for GateFut {
    type Output = ();
    fn poll(self: Pin<&mut Self>, cx: &mut Context<'_>) -> Poll<()> {
        let r = gate_poll(self.g, self.key, cx);
        if (self.key & PIPE_ITEM_FLAG) == 0 {
            let world = w();
            if (self.key as usize) < world.ops.len() {
                world.ops[self.key as usize].waiting_gate = if r.is_pending() { Some(self.g) } else { None };
            }
        } else {
            let world = w();
            let st = ((self.key >> 16) & 0x7fff) as usize;
            if st < world.streams.len() {
                world.streams[st].item_waiting_gate = if r.is_pending() { Some(self.g) } else { None };
            }
        }
        r
    }
}

pub struct BodyFut {
    inside: Option<Inside>,
    o: usize,
    key: u32,
    steps: Vec<Step>,
    pc: usize,
    sub: u8,
    inner: Option<Pin<Box<dyn Future<Output = ()> + Send>>>,
    result: u64,
    _probe: Option<Probe>,
    suspended_once: bool,
    /// the body itself raised the panic that is destroying it
    panic_inside: bool,
}

impl BodyFut {
    /// Called from inside the operation's closure: the operation is inside the object from now on.
    pub fn new(val: &mut Val, o: usize, key: u32, steps: Vec<Step>, result: u64, probe: Option<Probe>, stream_item: Option<(usize, usize)>) -> BodyFut {
        let inside = enter(val as *mut Val, o, key, stream_item);
        BodyFut { inside: Some(inside), o, key, steps, pc: 0, sub: 0, inner: None, result, _probe: probe, suspended_once: false, panic_inside: false }
    }
}

impl Drop for BodyFut {
    fn drop(&mut self) {
        if !rt::kernel::in_sim() {
            return;
        }
        if self.inside.is_some() && self.pc < self.steps.len() + 1 {
            // destroyed before completion: cancelled (or unwinding)
            if let Some(ins) = &self.inside {
                if let Some((st, _)) = ins.stream_item {
                    w().streams[st].cancelled_items += 1;
                }
            }
            if (self.key & PIPE_ITEM_FLAG) == 0 {
                let world = w();
                let r = &mut world.ops[self.key as usize];
                if r.fin_kind == FinKind::None {
                    // which of the two it is depends on whether this very future is being unwound through;
                    // a future destroyed by a thread that happens to be unwinding for another reason is cancelled
                    r.fin_kind = if rt::kernel::panicking() && self.panic_inside { FinKind::Panicked } else { FinKind::Cancelled };
                }
            }
        }
        // inner future (a nested await) goes before we leave the object
        self.inner = None;
        self.inside = None;
    }
}

impl Future for BodyFut {
    type Output = u64;
    fn poll(mut self: Pin<&mut Self>, cx: &mut Context<'_>) -> Poll<u64> {
        let this = &mut *self;
        loop {
            if this.pc >= this.steps.len() {
                this.pc = this.steps.len() + 1;
                // leave the object now: the future is complete
                if let Some(i) = this.inside.as_mut() {
                    i.completed = true;
                }
                this.inside = None;
                return Poll::Ready(this.result);
            }
            match &this.steps[this.pc] {
                Step::Yield(n) => {
                    while this.sub < *n {
                        this.sub += 1;
                        rt::kernel::point();
                    }
                    this.sub = 0;
                }
                Step::AwaitGate(g) => {
                    let g = *g;
                    let mut gf = GateFut { g, key: this.key };
                    match Pin::new(&mut gf).poll(cx) {
                        Poll::Ready(()) => {}
                        Poll::Pending => {
                            if !this.suspended_once {
                                this.suspended_once = true;
                                let pool = is_pool_task();
                                let world = w();
                                if pool {
                                    world.cover.suspended_on_pool += 1;
                                } else {
                                    world.cover.suspended_on_caller += 1;
                                }
                            }
                            return Poll::Pending;
                        }
                    }
                }
                Step::WakeSelf => {
                    w().cover.self_wakes += 1;
                    rt::kernel::note_fault();
                    cx.waker().wake_by_ref();
                }
                Step::AwaitAny(g1, g2) => {
                    let (g1, g2) = (*g1, *g2);
                    let mut f1 = GateFut { g: g1, key: this.key };
                    let r1 = Pin::new(&mut f1).poll(cx);
                    let r2 = if r1.is_pending() {
                        let mut f2 = GateFut { g: g2, key: this.key };
                        Pin::new(&mut f2).poll(cx)
                    } else {
                        Poll::Pending
                    };
                    if r1.is_pending() && r2.is_pending() {
                        if (this.key & PIPE_ITEM_FLAG) == 0 {
                            let r = &mut w().ops[this.key as usize];
                            r.waiting_gate = Some(g1);
                            r.waiting_gate_alt = Some(g2);
                        }
                        if !this.suspended_once {
                            this.suspended_once = true;
                            let pool = is_pool_task();
                            let world = w();
                            if pool {
                                world.cover.suspended_on_pool += 1;
                            } else {
                                world.cover.suspended_on_caller += 1;
                            }
                        }
                        return Poll::Pending;
                    }
                    if (this.key & PIPE_ITEM_FLAG) == 0 {
                        let r = &mut w().ops[this.key as usize];
                        r.waiting_gate = None;
                        r.waiting_gate_alt = None;
                    }
                    w().cover.select_left_waker += 1;
                }
                Step::Nested(op) => {
                    if this.inner.is_none() {
                        match &op.k {
                            OpKind::FutureSync { .. } | OpKind::FutureDesync { .. } => {
                                w().cover.nested_calls += 1;
                                this.inner = Some(nested_future((**op).clone()));
                            }
                            _ => {
                                w().cover.nested_calls += 1;
                                let op = (**op).clone();
                                exec_op(&op);
                                this.pc += 1;
                                continue;
                            }
                        }
                    }
                    match this.inner.as_mut().unwrap().as_mut().poll(cx) {
                        Poll::Ready(()) => {
                            this.inner = None;
                        }
                        Poll::Pending => return Poll::Pending,
                    }
                }
                other => {
                    let other = other.clone();
                    if other == Step::Panic {
                        this.panic_inside = true;
                    }
                    run_steps_sync(this.o, this.key, std::slice::from_ref(&other));
                }
            }
            this.pc += 1;
        }
    }
}

/// A future operation on another object awaited from inside a future body.
fn nested_future(op: Op) -> Pin<Box<dyn Future<Output = ()> + Send>> {
    Box::pin(async move {
        let id = op.id;
        match op.k {
            OpKind::FutureSync { o, body, .. } => {
                let d = match obj(o) {
                    Some(d) => d,
                    None => {
                        skip(id);
                        return;
                    }
                };
                let b = call_begin(id);
                let probe = Probe(id);
                let fut = d.future_sync(move |val: &mut Val| -> BoxFuture<'_, u64> { BodyFut::new(val, o, id, body, token(id), Some(probe), None).boxed() });
                call_end(id, b, CallOutcome::Returned(None));
                let r = fut.await;
                nested_resolved(id, r);
                release(o, d);
            }
            OpKind::FutureDesync { o, body, .. } => {
                let d = match obj(o) {
                    Some(d) => d,
                    None => {
                        skip(id);
                        return;
                    }
                };
                let b = call_begin(id);
                let probe = Probe(id);
                let fut = d.future_desync(move |val: &mut Val| -> BoxFuture<'_, u64> { BodyFut::new(val, o, id, body, token(id), Some(probe), None).boxed() });
                call_end(id, b, CallOutcome::Returned(None));
                release(o, d);
                let r = fut.await;
                nested_resolved(id, r);
            }
            _ => {}
        }
    })
}

fn nested_resolved(id: u32, r: Result<u64, Canceled>) {
    let s = ev("nested_resolved", id as i64, r.is_ok() as i64);
    let rec = w().ops[id as usize].clone();
    let prop = if rec.kind == Kind::FutureSync { "C08" } else { "C07" };
    match r {
        Ok(v) if v == token(id) => {
            if rec.fin.map_or(true, |f| f > s) {
                violation(prop, "resolved_before_operation_finished", &[id], format!("nested future of operation {} resolved before the operation finished", id));
            }
        }
        Ok(v) => violation(prop, "wrong_value", &[id], format!("nested future of operation {} resolved to {} instead of {}", id, v, token(id))),
        Err(_) => {
            let o = rec.obj.unwrap_or(0);
            if !w().objs[o].panic_injected {
                violation(prop, "unexpected_cancel", &[id], format!("nested future of operation {} was cancelled", id));
            }
        }
    }
}

// ---- handles -----------------------------------------------------------------------------

type BoxedHandle = Pin<Box<dyn Future<Output = Result<u64, Canceled>> + Send>>;

fn resolve(h: usize, v: Result<u64, Canceled>) {
    let s = ev("resolve", h as i64, v.as_ref().map(|x| *x as i64).unwrap_or(-1));
    let r = &mut w().hrec[h];
    r.resolved_at = Some(s);
    r.value = Some(v.map_err(|_| ()));
}

fn poll_stamp(h: usize) {
    cover_at(|c| &mut c.at_poll, keep_obj(h));
    let s = ev("poll", h as i64, 0);
    let r = &mut w().hrec[h];
    r.polls += 1;
    if r.first_poll.is_none() {
        r.first_poll = Some(s);
    }
}

fn handle_dropped(h: usize) {
    if w().hrec[h].resolved_at.is_none() && w().hrec[h].op.is_some() {
        cover_at(|c| &mut c.at_handle_drop, keep_obj(h));
    }
    let s = ev("handle_dropped", h as i64, 0);
    let world = w();
    let r = &mut world.hrec[h];
    if r.dropped_at.is_none() {
        r.dropped_at = Some(s);
    }
    if r.resolved_at.is_none() {
        world.cover.handle_drops_unresolved += 1;
        if r.kind == Kind::FutureSync {
            if let Some(op) = r.op {
                let o = &world.ops[op as usize];
                if r.polls == 0 {
                    world.cover.fsync_drop_before_poll += 1;
                } else if o.start.is_some() && o.fin.is_none() {
                    world.cover.fsync_drop_mid += 1;
                } else if o.start.is_none() {
                    world.cover.fsync_drop_waiting_slot += 1;
                }
            }
        }
    }
}

fn take_handle(h: usize) -> HandleSlot {
    let world = w();
    if h >= world.handles.len() {
        return HandleSlot::Empty;
    }
    match &world.handles[h] {
        HandleSlot::Empty | HandleSlot::Taken => HandleSlot::Empty,
        _ => std::mem::replace(&mut world.handles[h], HandleSlot::Taken),
    }
}

fn put_handle(h: usize, s: HandleSlot) {
    w().handles[h] = s;
}

fn keep_obj(h: usize) -> usize {
    let world = w();
    world.hrec[h].op.and_then(|op| world.ops[op as usize].obj).unwrap_or(0)
}

/// Drops a handle's future first and its keep-alive owner afterwards.
fn dispose(h: usize, fut: BoxedHandle, keep: Option<Arc<Desync<Val>>>) {
    handle_dropped(h);
    let r = catch_unwind(move || drop(fut));
    if let Err(e) = r {
        w().notes.push(format!("dropping handle {} panicked: {}", h, panic_msg(&e)));
    }
    if let Some(d) = keep {
        let o = keep_obj(h);
        release(o, d);
    }
}

fn await_boxed(h: usize, mut fut: BoxedHandle, keep: Option<Arc<Desync<Val>>>, once: bool) {
    let waker = if once { flag_waker(Some(h)) } else { task_waker(Some(h)) };
    let mut cx = Context::from_waker(&waker);
    {
        let s = ev("await_begin", h as i64, once as i64);
        let me = me();
        let r = &mut w().hrec[h];
        if !once {
            r.awaiting = Some(me);
            r.await_started = Some(s);
        }
    }
    loop {
        poll_stamp(h);
        let pool = is_pool_task();
        let r = catch_unwind(|| fut.as_mut().poll(&mut cx));
        match r {
            Ok(Poll::Ready(v)) => {
                resolve(h, v);
                w().hrec[h].awaiting = None;
                dispose(h, fut, keep);
                put_handle(h, HandleSlot::Empty);
                return;
            }
            Ok(Poll::Pending) => {
                let _ = pool;
                if once {
                    put_handle(h, HandleSlot::Boxed(fut, keep));
                    return;
                }
                rt::thread::park();
            }
            Err(e) => {
                let m = panic_msg(&e);
                let sp = ev("poll_panicked", h as i64, 0);
                let me = me();
                let r = &mut w().hrec[h];
                r.panicked = Some(m);
                r.panicked_at = Some((sp, me));
                r.awaiting = None;
                dispose(h, fut, keep);
                put_handle(h, HandleSlot::Empty);
                return;
            }
        }
    }
}

fn await_handle(h: usize, once: bool) {
    match take_handle(h) {
        HandleSlot::Sched(f) => await_boxed(h, Box::pin(f), None, once),
        HandleSlot::Boxed(f, keep) => await_boxed(h, f, keep, once),
        HandleSlot::SuspendFut(mut f) => {
            let waker = if once { flag_waker(Some(h)) } else { task_waker(Some(h)) };
            let mut cx = Context::from_waker(&waker);
            let o = keep_obj(h);
            w().hrec[h].awaiting = Some(me());
            loop {
                poll_stamp(h);
                let r = catch_unwind(|| f.as_mut().poll(&mut cx));
                match r {
                    Ok(Poll::Ready(Ok(resumer))) => {
                        let s = ev("suspended", o as i64, h as i64);
                        let world = w();
                        world.objs[o].suspended_at = Some(s);
                        world.hrec[h].resolved_at = Some(s);
                        world.hrec[h].value = Some(Ok(0));
                        world.hrec[h].awaiting = None;
                        put_handle(h, HandleSlot::Resumer(resumer));
                        return;
                    }
                    Ok(Poll::Ready(Err(_))) => {
                        let s = ev("suspend_cancelled", o as i64, h as i64);
                        let world = w();
                        world.hrec[h].resolved_at = Some(s);
                        world.hrec[h].value = Some(Err(()));
                        world.hrec[h].awaiting = None;
                        put_handle(h, HandleSlot::Empty);
                        return;
                    }
                    Ok(Poll::Pending) => {
                        if once {
                            put_handle(h, HandleSlot::SuspendFut(f));
                            w().hrec[h].awaiting = None;
                            return;
                        }
                        rt::thread::park();
                    }
                    Err(e) => {
                        let world = w();
                        world.hrec[h].panicked = Some(panic_msg(&e));
                        world.hrec[h].awaiting = None;
                        put_handle(h, HandleSlot::Empty);
                        return;
                    }
                }
            }
        }
        HandleSlot::Resumer(r) => put_handle(h, HandleSlot::Resumer(r)),
        HandleSlot::Empty | HandleSlot::Taken => {}
    }
}

pub fn drop_handle(h: usize) {
    match take_handle(h) {
        HandleSlot::Sched(f) => {
            handle_dropped(h);
            f.detach();
            put_handle(h, HandleSlot::Empty);
        }
        HandleSlot::Boxed(f, keep) => {
            dispose(h, f, keep);
            put_handle(h, HandleSlot::Empty);
        }
        HandleSlot::SuspendFut(f) => {
            handle_dropped(h);
            drop(f);
            put_handle(h, HandleSlot::Empty);
        }
        HandleSlot::Resumer(r) => {
            let o = keep_obj(h);
            cover_at(|c| &mut c.at_resume, o);
            let s = ev("resumed", o as i64, 1);
            w().objs[o].resumed_at.get_or_insert(s);
            w().hrec[h].resumed_at.get_or_insert(s);
            drop(r);
            put_handle(h, HandleSlot::Empty);
        }
        HandleSlot::Empty | HandleSlot::Taken => {}
    }
}

// ---- pipes --------------------------------------------------------------------------------

struct PipeProbe(usize);
impl Drop for PipeProbe {
    fn drop(&mut self) {
        if !rt::kernel::in_sim() {
            return;
        }
        let s = ev("pipe_closure_dropped", self.0 as i64, 0);
        let st = &mut w().streams[self.0];
        st.closure_drops += 1;
        if st.closure_dropped_at.is_none() {
            st.closure_dropped_at = Some(s);
        }
    }
}

/// The input of a pipe: a stream driven by the environment, or (a chain) the output stream of an earlier pipe.
pub enum PipeInput {
    Sim(SimStream),
    Chain { inner: Option<desync::pipe::PipeStream<u64>>, s: usize, from: usize },
}

fn chain_input(s: usize, from: Option<usize>) -> Option<PipeInput> {
    match from {
        None => Some(PipeInput::Sim(SimStream { s })),
        Some(from) => {
            let world = w();
            if from >= world.outs.len() {
                return None;
            }
            let inner = world.outs[from].stream.take()?;
            world.cover.chained_pipes += 1;
            Some(PipeInput::Chain { inner: Some(inner), s, from })
        }
    }
}

impl futures::Stream for PipeInput {
    type Item = u32;
    fn poll_next(self: Pin<&mut Self>, cx: &mut Context<'_>) -> Poll<Option<u32>> {
        match self.get_mut() {
            PipeInput::Sim(st) => Pin::new(st).poll_next(cx),
            PipeInput::Chain { inner, s, from } => {
                let (s, from) = (*s, *from);
                rt::kernel::point();
                let r = match inner.as_mut() {
                    Some(i) => Pin::new(i).poll_next(cx),
                    None => Poll::Ready(None),
                };
                match r {
                    Poll::Ready(Some(v)) => {
                        // what the earlier pipe's output yields is what this pipe's input "pushes"
                        ev("out", from as i64, v as i64);
                        let item = v as u32;
                        ev("push", s as i64, item as i64);
                        let world = w();
                        world.outs[from].outputs.push(v);
                        world.outs[from].depth_dirty = false;
                        world.streams[s].pushed.push(item);
                        world.streams[s].polls += 1;
                        Poll::Ready(Some(item))
                    }
                    Poll::Ready(None) => {
                        ev("out_end", from as i64, 0);
                        ev("close", s as i64, 0);
                        let world = w();
                        world.outs[from].ended = true;
                        world.streams[s].closed = true;
                        world.streams[s].ended_seen = true;
                        Poll::Ready(None)
                    }
                    Poll::Pending => {
                        w().cover.stream_pending += 1;
                        Poll::Pending
                    }
                }
            }
        }
    }
}

impl Drop for PipeInput {
    fn drop(&mut self) {
        if let PipeInput::Chain { inner, s, from } = self {
            if !rt::kernel::in_sim() {
                std::mem::forget(inner.take());
                return;
            }
            // the earlier pipe's output stream goes away here: from now on that pipe owes its own shutdown
            let sq = ev("out_dropped", *from as i64, 0);
            w().outs[*from].dropped_at = Some(sq);
            drop(inner.take());
            ev("out_drop_done", *from as i64, 0);
            let sq = ev("stream_dropped", *s as i64, 0);
            let st = &mut w().streams[*s];
            st.drops += 1;
            if st.dropped_at.is_none() {
                st.dropped_at = Some(sq);
            }
        }
    }
}

fn next_item_index(s: usize, item: u32) -> usize {
    let _ = item;
    w().streams[s].processed.len()
}

fn block_on_next(out: usize, once: bool) {
    let mut ps = {
        let world = w();
        if out >= world.outs.len() || world.outs[out].ended {
            return;
        }
        match world.outs[out].stream.take() {
            Some(p) => p,
            None => return,
        }
    };
    let waker = if once { flag_waker(None) } else { task_waker(None) };
    let mut cx = Context::from_waker(&waker);
    if !once {
        w().outs[out].waiting = Some(me());
    }
    loop {
        let r = Pin::new(&mut ps).poll_next(&mut cx);
        match r {
            Poll::Ready(Some(v)) => {
                ev("out", out as i64, v as i64);
                {
                    // reach probe: the buffer was full when this read made room (the producer was, or was about to be, throttled)
                    let world = w();
                    if let Some(src) = world.outs[out].src {
                        let finished = world.streams[src].processed.iter().filter(|p| p.2.is_some()).count();
                        if finished.saturating_sub(world.outs[out].outputs.len()) >= world.outs[out].depth {
                            world.cover.pipe_backpressure += 1;
                        }
                    }
                }
                w().outs[out].outputs.push(v);
                w().outs[out].depth_dirty = false;
                break;
            }
            Poll::Ready(None) => {
                ev("out_end", out as i64, 0);
                w().outs[out].ended = true;
                break;
            }
            Poll::Pending => {
                w().cover.out_pending += 1;
                if once {
                    break;
                }
                rt::thread::park();
            }
        }
    }
    let world = w();
    world.outs[out].waiting = None;
    world.outs[out].stream = Some(ps);
}

pub fn drop_out(out: usize) {
    let ps = {
        let world = w();
        if out >= world.outs.len() {
            return;
        }
        world.outs[out].stream.take()
    };
    if let Some(ps) = ps {
        let s = ev("out_dropped", out as i64, 0);
        w().outs[out].dropped_at = Some(s);
        drop(ps);
        ev("out_drop_done", out as i64, 0);
    }
}

// ---- operations ------------------------------------------------------------------------------

/// A handle of a bare queue plus the value its jobs work on (None once the harness has given its handle up).
fn raw_obj(o: usize) -> Option<(Arc<desync::scheduler::JobQueue>, usize)> {
    let slot = w().objs.get(o)?;
    if !slot.is_raw {
        return None;
    }
    slot.raw.clone().map(|q| (q, slot.raw_val))
}

fn is_raw(o: usize) -> bool {
    w().objs.get(o).map_or(false, |s| s.is_raw)
}

/// The same operations on a bare job queue, through the scheduler-level functions.  Nothing waits for such a queue when its
/// last handle goes away: work that has been accepted must still run (the queue is kept alive by whoever is going to run or wake it).
fn exec_raw_op(op: &Op, o: usize) {
    use desync::scheduler as sch;
    let id = op.id;
    let (q, vp) = match raw_obj(o) {
        Some(x) => x,
        None => {
            if let OpKind::DropObj { .. } = &op.k {
                return;
            }
            return skip(id);
        }
    };
    // the value outlives everything (it is never freed); exclusive access is what the queue promises and what the occupancy checks verify
    let val = move || -> &'static mut Val { unsafe { &mut *(vp as *mut Val) } };
    match &op.k {
        OpKind::Desync { body, .. } => {
            let body = body.clone();
            let b = call_begin(id);
            let probe = Probe(id);
            let r = catch_unwind(|| {
                sch::desync(&q, move || {
                    let _p = probe;
                    run_sync_body(val(), o, id, &body);
                })
            });
            call_end(id, b, match r {
                Ok(()) => CallOutcome::Returned(None),
                Err(e) => CallOutcome::Panicked(panic_msg(&e)),
            });
        }
        OpKind::Sync { body, .. } => {
            let body = body.clone();
            w().cover.sync_calls += 1;
            let b = call_begin(id);
            let probe = Probe(id);
            let r = catch_unwind(|| {
                sch::sync(&q, move || {
                    let _p = probe;
                    run_sync_body(val(), o, id, &body)
                })
            });
            call_end(id, b, match r {
                Ok(v) => CallOutcome::Returned(Some(v)),
                Err(e) => CallOutcome::Panicked(panic_msg(&e)),
            });
        }
        OpKind::TrySync { body, .. } => {
            let body = body.clone();
            let b = call_begin(id);
            let probe = Probe(id);
            let r = catch_unwind(|| {
                sch::try_sync(&q, move || {
                    let _p = probe;
                    run_sync_body(val(), o, id, &body)
                })
            });
            let oc = match r {
                Ok(Ok(v)) => {
                    w().cover.try_ok += 1;
                    CallOutcome::Returned(Some(v))
                }
                Ok(Err(_)) => {
                    let world = w();
                    world.cover.try_busy += 1;
                    world.objs[o].saw_busy = true;
                    CallOutcome::Busy
                }
                Err(e) => CallOutcome::Panicked(panic_msg(&e)),
            };
            call_end(id, b, oc);
        }
        OpKind::FutureDesync { body, h, .. } => {
            let (body, h) = (body.clone(), *h);
            let b = call_begin(id);
            let probe = Probe(id);
            let r = catch_unwind(|| sch::future_desync(&q, move || BodyFut::new(val(), o, id, body, token(id), Some(probe), None)));
            match r {
                Ok(f) => {
                    call_end(id, b, CallOutcome::Returned(None));
                    let s = seq();
                    let world = w();
                    world.hrec[h].op = Some(id);
                    world.hrec[h].kind = Kind::FutureDesync;
                    world.hrec[h].created_at = Some(s);
                    world.handles[h] = HandleSlot::Sched(f);
                }
                Err(e) => call_end(id, b, CallOutcome::Panicked(panic_msg(&e))),
            }
        }
        OpKind::After { gate, body, h, .. } => {
            let (gate, body, h) = (*gate, body.clone(), *h);
            let b = call_begin(id);
            let probe = Probe(id);
            let r = catch_unwind(|| {
                scheduler().after(&q, GateFut { g: gate, key: id }, move |_: ()| {
                    let _p = probe;
                    run_sync_body(val(), o, id, &body)
                })
            });
            match r {
                Ok(f) => {
                    call_end(id, b, CallOutcome::Returned(None));
                    let s = seq();
                    let world = w();
                    world.hrec[h].op = Some(id);
                    world.hrec[h].kind = Kind::After;
                    world.hrec[h].created_at = Some(s);
                    world.handles[h] = HandleSlot::Boxed(Box::pin(f), None);
                }
                Err(e) => call_end(id, b, CallOutcome::Panicked(panic_msg(&e))),
            }
        }
        OpKind::FutureSync { body, h, .. } => {
            let (body, h) = (body.clone(), *h);
            let b = call_begin(id);
            let probe = Probe(id);
            let q2 = q.clone();
            let r = catch_unwind(move || {
                let f = sch::future_sync(&q2, move || BodyFut::new(val(), o, id, body, token(id), Some(probe), None));
                let f: BoxedHandle = Box::pin(f);
                f
            });
            match r {
                Ok(f) => {
                    call_end(id, b, CallOutcome::Returned(None));
                    let s = seq();
                    let world = w();
                    world.hrec[h].op = Some(id);
                    world.hrec[h].kind = Kind::FutureSync;
                    world.hrec[h].created_at = Some(s);
                    world.handles[h] = HandleSlot::Boxed(f, None);
                }
                Err(e) => call_end(id, b, CallOutcome::Panicked(panic_msg(&e))),
            }
        }
        OpKind::Suspend { h, .. } => {
            let h = *h;
            let b = call_begin(id);
            let r = catch_unwind(|| scheduler().suspend(&q));
            match r {
                Ok(f) => {
                    call_end(id, b, CallOutcome::Returned(None));
                    let s = seq();
                    let world = w();
                    world.hrec[h].op = Some(id);
                    world.hrec[h].kind = Kind::Suspend;
                    world.hrec[h].created_at = Some(s);
                    world.handles[h] = HandleSlot::SuspendFut(Box::pin(f));
                }
                Err(e) => call_end(id, b, CallOutcome::Panicked(panic_msg(&e))),
            }
        }
        OpKind::DropObj { .. } => {
            drop(q);
            drop_table_ref(o);
            return;
        }
        _ => skip(id),
    }
    // the handle cloned for this call goes away again (it may be the last one: nothing waits, the queue simply lives on in its runner or wakers)
    drop(q);
}

pub fn exec_op(op: &Op) {
    let id = op.id;
    if let Some(o) = op.obj() {
        if is_raw(o) {
            return exec_raw_op(op, o);
        }
    }
    match &op.k {
        OpKind::Desync { o, body } => {
            let (o, body) = (*o, body.clone());
            let d = match obj(o) {
                Some(d) => d,
                None => return skip(id),
            };
            let b = call_begin(id);
            let probe = Probe(id);
            let r = catch_unwind(|| {
                let job = move |val: &mut Val| {
                    let _p = probe;
                    run_sync_body(val, o, id, &body);
                };
                // the deprecated spelling of the same call is exercised too
                if id % 5 == 4 {
                    #[allow(deprecated)]
                    d.r#async(job)
                } else {
                    d.desync(job)
                }
            });
            call_end(id, b, match r {
                Ok(()) => CallOutcome::Returned(None),
                Err(e) => CallOutcome::Panicked(panic_msg(&e)),
            });
            release(o, d);
        }
        OpKind::Sync { o, body } => {
            let (o, body) = (*o, body.clone());
            let d = match obj(o) {
                Some(d) => d,
                None => return skip(id),
            };
            w().cover.sync_calls += 1;
            let b = call_begin(id);
            let probe = Probe(id);
            let r = catch_unwind(|| {
                d.sync(move |val| {
                    let _p = probe;
                    run_sync_body(val, o, id, &body)
                })
            });
            call_end(id, b, match r {
                Ok(v) => CallOutcome::Returned(Some(v)),
                Err(e) => CallOutcome::Panicked(panic_msg(&e)),
            });
            release(o, d);
        }
        OpKind::TrySync { o, body } => {
            let (o, body) = (*o, body.clone());
            let d = match obj(o) {
                Some(d) => d,
                None => return skip(id),
            };
            let b = call_begin(id);
            let probe = Probe(id);
            let r = catch_unwind(|| {
                d.try_sync(move |val| {
                    let _p = probe;
                    run_sync_body(val, o, id, &body)
                })
            });
            let oc = match r {
                Ok(Ok(v)) => {
                    w().cover.try_ok += 1;
                    CallOutcome::Returned(Some(v))
                }
                Ok(Err(_)) => {
                    let world = w();
                    world.cover.try_busy += 1;
                    world.objs[o].saw_busy = true;
                    CallOutcome::Busy
                }
                Err(e) => CallOutcome::Panicked(panic_msg(&e)),
            };
            call_end(id, b, oc);
            release(o, d);
        }
        OpKind::FutureDesync { o, body, h } => {
            let (o, body, h) = (*o, body.clone(), *h);
            let d = match obj(o) {
                Some(d) => d,
                None => return skip(id),
            };
            let b = call_begin(id);
            let probe = Probe(id);
            let r = catch_unwind(|| d.future_desync(move |val: &mut Val| -> BoxFuture<'_, u64> { BodyFut::new(val, o, id, body, token(id), Some(probe), None).boxed() }));
            match r {
                Ok(f) => {
                    call_end(id, b, CallOutcome::Returned(None));
                    let s = seq();
                    let world = w();
                    world.hrec[h].op = Some(id);
                    world.hrec[h].kind = Kind::FutureDesync;
                    world.hrec[h].created_at = Some(s);
                    world.handles[h] = HandleSlot::Sched(f);
                }
                Err(e) => call_end(id, b, CallOutcome::Panicked(panic_msg(&e))),
            }
            release(o, d);
        }
        OpKind::After { o, gate, body, h } => {
            let (o, gate, body, h) = (*o, *gate, body.clone(), *h);
            let d = match obj(o) {
                Some(d) => d,
                None => return skip(id),
            };
            let b = call_begin(id);
            let probe = Probe(id);
            let r = catch_unwind(|| {
                d.after(GateFut { g: gate, key: id }, move |val: &mut Val, _: ()| {
                    let _p = probe;
                    run_sync_body(val, o, id, &body)
                })
            });
            match r {
                Ok(f) => {
                    call_end(id, b, CallOutcome::Returned(None));
                    let s = seq();
                    let world = w();
                    world.hrec[h].op = Some(id);
                    world.hrec[h].kind = Kind::After;
                    world.hrec[h].created_at = Some(s);
                    world.handles[h] = HandleSlot::Boxed(Box::pin(f), None);
                }
                Err(e) => call_end(id, b, CallOutcome::Panicked(panic_msg(&e))),
            }
            release(o, d);
        }
        OpKind::FutureSync { o, body, h } => {
            let (o, body, h) = (*o, body.clone(), *h);
            let d = match obj(o) {
                Some(d) => d,
                None => return skip(id),
            };
            let b = call_begin(id);
            let probe = Probe(id);
            let r = catch_unwind(|| {
                let f = d.future_sync(move |val: &mut Val| -> BoxFuture<'_, u64> { BodyFut::new(val, o, id, body, token(id), Some(probe), None).boxed() });
                let f: Pin<Box<dyn Future<Output = Result<u64, Canceled>> + Send + '_>> = Box::pin(f);
                // the handle keeps its own owner of the object alive for as long as the future lives
                let f: BoxedHandle = unsafe { std::mem::transmute(f) };
                f
            });
            match r {
                Ok(f) => {
                    call_end(id, b, CallOutcome::Returned(None));
                    let s = seq();
                    let world = w();
                    world.hrec[h].op = Some(id);
                    world.hrec[h].kind = Kind::FutureSync;
                    world.hrec[h].created_at = Some(s);
                    world.handles[h] = HandleSlot::Boxed(f, Some(d));
                }
                Err(e) => {
                    call_end(id, b, CallOutcome::Panicked(panic_msg(&e)));
                    release(o, d);
                }
            }
        }
        OpKind::Await { h } => await_handle(*h, false),
        OpKind::PollOnce { h } => await_handle(*h, true),
        OpKind::DropHandle { h } | OpKind::Detach { h } | OpKind::DropResumer { h } => drop_handle(*h),
        OpKind::SyncWait { h } => {
            let h = *h;
            match take_handle(h) {
                HandleSlot::Sched(f) => {
                    poll_stamp(h);
                    cover_at(|c| &mut c.at_sync_wait, keep_obj(h));
                    let s0 = ev("sync_wait_begin", h as i64, 0);
                    w().hrec[h].awaiting = Some(me());
                    w().hrec[h].await_started = Some(s0);
                    w().hrec[h].sync_wait = true;
                    let r = catch_unwind(|| f.sync());
                    w().hrec[h].awaiting = None;
                    match r {
                        Ok(v) => resolve(h, v),
                        Err(e) => w().hrec[h].panicked = Some(panic_msg(&e)),
                    }
                    handle_dropped(h);
                    put_handle(h, HandleSlot::Empty);
                }
                other => {
                    if !matches!(other, HandleSlot::Empty) {
                        put_handle(h, other);
                    }
                    await_handle(h, false);
                }
            }
        }
        OpKind::Suspend { o, h } => {
            let (o, h) = (*o, *h);
            let d = match obj(o) {
                Some(d) => d,
                None => return skip(id),
            };
            let b = call_begin(id);
            let q = d.verif_queue().clone();
            let r = catch_unwind(|| scheduler().suspend(&q));
            match r {
                Ok(f) => {
                    call_end(id, b, CallOutcome::Returned(None));
                    let s = seq();
                    let world = w();
                    world.hrec[h].op = Some(id);
                    world.hrec[h].kind = Kind::Suspend;
                    world.hrec[h].created_at = Some(s);
                    world.handles[h] = HandleSlot::SuspendFut(Box::pin(f));
                }
                Err(e) => call_end(id, b, CallOutcome::Panicked(panic_msg(&e))),
            }
            release(o, d);
        }
        OpKind::Resume { h } => {
            let h = *h;
            match take_handle(h) {
                HandleSlot::Resumer(r) => {
                    let o = keep_obj(h);
                    cover_at(|c| &mut c.at_resume, o);
                    let s = ev("resumed", o as i64, 0);
                    w().objs[o].resumed_at.get_or_insert(s);
            w().hrec[h].resumed_at.get_or_insert(s);
                    r.resume();
                    put_handle(h, HandleSlot::Empty);
                }
                HandleSlot::Empty | HandleSlot::Taken => {}
                other => put_handle(h, other),
            }
        }
        OpKind::PipeIn { o, s, body, from } => {
            let (o, s, body, from) = (*o, *s, body.clone(), *from);
            let d = match obj(o) {
                Some(d) => d,
                None => return skip(id),
            };
            {
                let world = w();
                if s >= world.streams.len() || world.streams[s].taken {
                    return skip(id);
                }
                world.streams[s].taken = true;
                world.streams[s].obj = Some(o);
                world.streams[s].pipe_op = Some(id);
            }
            let input = match chain_input(s, from) {
                Some(i) => i,
                None => return skip(id),
            };
            let b = call_begin(id);
            let probe = PipeProbe(s);
            let d2 = d.clone();
            let r = catch_unwind(move || {
                pipe_in(d2, input, move |val: &mut Val, item: u32| -> BoxFuture<'_, ()> {
                    let _keep = &probe;
                    let idx = next_item_index(s, item);
                    BodyFut::new(val, o, item_key(s, item as usize), body.clone(), 0, None, Some((s, idx))).map(|_| ()).boxed()
                })
            });
            call_end(id, b, match r {
                Ok(()) => CallOutcome::Returned(None),
                Err(e) => CallOutcome::Panicked(panic_msg(&e)),
            });
            release(o, d);
        }
        OpKind::Pipe { o, s, depth, out, body, from } => {
            let (o, s, depth, out, body, from) = (*o, *s, *depth, *out, body.clone(), *from);
            let d = match obj(o) {
                Some(d) => d,
                None => return skip(id),
            };
            {
                let world = w();
                if s >= world.streams.len() || world.streams[s].taken || out >= world.outs.len() {
                    return skip(id);
                }
                world.streams[s].taken = true;
                world.streams[s].obj = Some(o);
                world.streams[s].pipe_op = Some(id);
            }
            let input = match chain_input(s, from) {
                Some(i) => i,
                None => return skip(id),
            };
            let b = call_begin(id);
            let probe = PipeProbe(s);
            let d2 = d.clone();
            let r = catch_unwind(move || {
                let mut ps = pipe(d2, input, move |val: &mut Val, item: u32| -> BoxFuture<'_, u64> {
                    let _keep = &probe;
                    let idx = next_item_index(s, item);
                    BodyFut::new(val, o, item_key(s, item as usize), body.clone(), out_value(item), None, Some((s, idx))).boxed()
                });
                ps.set_backpressure_depth(depth);
                ps
            });
            match r {
                Ok(ps) => {
                    call_end(id, b, CallOutcome::Returned(None));
                    let world = w();
                    world.outs[out].stream = Some(ps);
                    world.outs[out].src = Some(s);
                    world.outs[out].depth = depth;
                }
                Err(e) => call_end(id, b, CallOutcome::Panicked(panic_msg(&e))),
            }
            release(o, d);
        }
        OpKind::Next { out } => block_on_next(*out, false),
        OpKind::PollNext { out } => block_on_next(*out, true),
        OpKind::DropOut { out } => drop_out(*out),
        OpKind::SetDepth { out, depth } => {
            let world = w();
            if *out < world.outs.len() {
                if let Some(ps) = world.outs[*out].stream.as_mut() {
                    ps.set_backpressure_depth(*depth);
                    world.outs[*out].depth = *depth;
                    world.outs[*out].depth_dirty = true;
                    world.cover.depth_changes += 1;
                }
            }
        }
        OpKind::DropObj { o } => drop_table_ref(*o),
        OpKind::OpenGate { g } => gate_open(*g),
        OpKind::Poke { g } => gate_poke(*g),
        OpKind::WakeStale { g } => gate_wake_stale(*g),
        OpKind::Push { s, item } => stream_push(*s, *item),
        OpKind::CloseStream { s } => stream_close(*s),
        OpKind::Yield(n) => {
            for _ in 0..*n {
                rt::kernel::point();
            }
        }
        OpKind::SweepWait => rt::kernel::sweep_wait(),
        OpKind::SweepDone => rt::kernel::sweep_done(),
        OpKind::Mark => rt::kernel::sweep_mark(),
        OpKind::WaitGate { g } => gate_block_on(*g),
        OpKind::DropObjPanicking { o } => {
            let o = *o;
            let a = {
                let world = w();
                if o >= world.objs.len() {
                    return;
                }
                world.objs[o].arc.take()
            };
            if let Some(a) = a {
                let s = ev("table_drop_panicking", o as i64, 0);
                w().objs[o].table_dropped_at = Some(s);
                w().cover.drops_while_panicking += 1;
                struct Owner(usize, Option<Arc<Desync<Val>>>);
                impl Drop for Owner {
                    fn drop(&mut self) {
                        if let Some(a) = self.1.take() {
                            release(self.0, a);
                        }
                    }
                }
                let r = catch_unwind(move || {
                    let _owner = Owner(o, Some(a));
                    panic!("harness: owner of object {} released while unwinding", o);
                });
                let _ = r;
            }
        }
        OpKind::Despawn => {
            let s0 = ev("despawn_inv", 0, 0);
            let _ = s0;
            scheduler().despawn_threads_if_overloaded();
            ev("despawn_ret", 0, 0);
            let c = rt::kernel::counters();
            let live = c.pool_spawned - c.pool_exited;
            let (phase, max) = {
                let world = w();
                (world.phase, world.cur_max)
            };
            crate::sim::facts().pool_after_despawn.push((phase, live, max));
        }
    }
}
