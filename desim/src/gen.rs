//! Program generators ("scenario families").  Everything is drawn from one PRNG.

use crate::ir::*;
use desync_verif_rt::strategy::Rng;

#[derive(Clone, Debug)]
pub struct Weights {
    pub desync: u32,
    pub sync: u32,
    pub try_sync: u32,
    pub future_desync: u32,
    pub after: u32,
    pub future_sync: u32,
    pub suspend: u32,
    pub drop_obj: u32,
    pub open_gate: u32,
    pub yield_: u32,
    pub handle_use: u32,
}

#[derive(Clone, Debug)]
pub struct Profile {
    pub name: &'static str,
    pub pools: &'static [usize],
    pub objs: (u64, u64),
    pub threads: (u64, u64),
    pub ops: (u64, u64),
    pub w: Weights,
    /// per-mille chance that a body gets each kind of step
    pub body_yield: u32,
    pub body_gate: u32,
    pub body_block: u32,
    pub body_nested: u32,
    pub body_drop: u32,
    pub env_gates: bool,
    pub faults: bool,
    pub prespawn_permille: u32,
    /// what to do with handles: weights for await / poll_once / drop / detach / sync_wait / leave
    pub handle_w: [u32; 6],
}

pub const MIX: Profile = Profile {
    name: "mix",
    pools: &[0, 1, 1, 2, 2, 3],
    objs: (1, 3),
    threads: (1, 4),
    ops: (1, 6),
    w: Weights { desync: 5, sync: 5, try_sync: 2, future_desync: 3, after: 2, future_sync: 3, suspend: 0, drop_obj: 0, open_gate: 2, yield_: 1, handle_use: 5 },
    body_yield: 600,
    body_gate: 300,
    body_block: 80,
    body_nested: 120,
    body_drop: 0,
    env_gates: true,
    faults: true,
    prespawn_permille: 200,
    handle_w: [5, 3, 2, 1, 2, 1],
};

pub const RAW: Profile = Profile {
    name: "raw-queue",
    pools: &[1, 1, 2, 3],
    objs: (1, 2),
    threads: (1, 3),
    ops: (1, 6),
    w: Weights { desync: 5, sync: 2, try_sync: 1, future_desync: 5, after: 3, future_sync: 2, suspend: 0, drop_obj: 0, open_gate: 2, yield_: 1, handle_use: 4 },
    body_yield: 500,
    body_gate: 350,
    body_block: 50,
    body_nested: 80,
    body_drop: 0,
    env_gates: true,
    faults: true,
    prespawn_permille: 200,
    handle_w: [4, 3, 2, 4, 1, 2],
};

pub const LATE_POLL: Profile = Profile {
    name: "late-poll",
    pools: &[1, 1, 2, 3, 0],
    objs: (1, 2),
    threads: (2, 4),
    ops: (2, 6),
    w: Weights { desync: 4, sync: 4, try_sync: 1, future_desync: 5, after: 3, future_sync: 4, suspend: 0, drop_obj: 0, open_gate: 1, yield_: 2, handle_use: 2 },
    body_yield: 500,
    body_gate: 250,
    body_block: 0,
    body_nested: 0,
    body_drop: 0,
    env_gates: true,
    faults: true,
    prespawn_permille: 100,
    handle_w: [3, 4, 1, 1, 1, 4],
};

pub const DRAIN_STEAL: Profile = Profile {
    name: "drain-steal",
    pools: &[0, 0, 1, 1],
    objs: (1, 2),
    threads: (2, 4),
    ops: (2, 5),
    w: Weights { desync: 6, sync: 7, try_sync: 2, future_desync: 3, after: 0, future_sync: 0, suspend: 0, drop_obj: 0, open_gate: 1, yield_: 1, handle_use: 3 },
    body_yield: 500,
    body_gate: 150,
    body_block: 0,
    body_nested: 100,
    body_drop: 0,
    env_gates: true,
    faults: true,
    prespawn_permille: 300,
    handle_w: [0, 0, 2, 6, 0, 2],
};

pub const BACKGROUND: Profile = Profile {
    name: "background",
    pools: &[1, 1, 1, 2, 3],
    objs: (1, 3),
    threads: (1, 4),
    ops: (1, 6),
    w: Weights { desync: 10, sync: 0, try_sync: 0, future_desync: 4, after: 2, future_sync: 0, suspend: 0, drop_obj: 0, open_gate: 2, yield_: 3, handle_use: 2 },
    body_yield: 400,
    body_gate: 250,
    body_block: 50,
    body_nested: 200,
    body_drop: 0,
    env_gates: true,
    faults: true,
    prespawn_permille: 500,
    handle_w: [0, 0, 3, 6, 0, 3],
};

pub const MIX_KICK: Profile = Profile {
    name: "mix-kick",
    pools: &[1, 1, 2, 3],
    objs: (1, 3),
    threads: (2, 4),
    ops: (1, 6),
    w: Weights { desync: 8, sync: 4, try_sync: 4, future_desync: 3, after: 1, future_sync: 1, suspend: 0, drop_obj: 0, open_gate: 2, yield_: 3, handle_use: 3 },
    body_yield: 400,
    body_gate: 200,
    body_block: 30,
    body_nested: 150,
    body_drop: 0,
    env_gates: true,
    faults: true,
    prespawn_permille: 500,
    handle_w: [3, 2, 2, 4, 1, 2],
};

pub const SYNC_STATES: Profile = Profile {
    name: "sync-states",
    pools: &[0, 0, 1, 1, 2, 3],
    objs: (1, 3),
    threads: (1, 4),
    ops: (1, 5),
    w: Weights { desync: 5, sync: 9, try_sync: 1, future_desync: 3, after: 1, future_sync: 1, suspend: 0, drop_obj: 0, open_gate: 2, yield_: 1, handle_use: 3 },
    body_yield: 500,
    body_gate: 300,
    body_block: 100,
    body_nested: 250,
    body_drop: 0,
    env_gates: true,
    faults: true,
    prespawn_permille: 300,
    handle_w: [3, 2, 1, 3, 1, 2],
};

pub const TRY: Profile = Profile {
    name: "try",
    pools: &[0, 1, 1, 2, 3],
    objs: (1, 2),
    threads: (2, 4),
    ops: (1, 5),
    w: Weights { desync: 5, sync: 5, try_sync: 8, future_desync: 2, after: 1, future_sync: 1, suspend: 0, drop_obj: 0, open_gate: 1, yield_: 2, handle_use: 3 },
    body_yield: 400,
    body_gate: 200,
    body_block: 0,
    body_nested: 100,
    body_drop: 0,
    env_gates: true,
    faults: true,
    prespawn_permille: 300,
    handle_w: [3, 2, 1, 3, 1, 2],
};

pub const HANDLES: Profile = Profile {
    name: "handles",
    pools: &[0, 1, 1, 2, 3],
    objs: (1, 2),
    threads: (1, 4),
    ops: (2, 6),
    w: Weights { desync: 3, sync: 2, try_sync: 1, future_desync: 8, after: 5, future_sync: 1, suspend: 0, drop_obj: 0, open_gate: 2, yield_: 1, handle_use: 9 },
    body_yield: 400,
    body_gate: 400,
    body_block: 0,
    body_nested: 80,
    body_drop: 0,
    env_gates: true,
    faults: true,
    prespawn_permille: 200,
    handle_w: [6, 5, 2, 2, 3, 1],
};

pub const FSYNC: Profile = Profile {
    name: "fsync",
    pools: &[0, 1, 1, 2, 3],
    objs: (1, 3),
    threads: (1, 3),
    ops: (2, 6),
    w: Weights { desync: 4, sync: 2, try_sync: 1, future_desync: 2, after: 1, future_sync: 9, suspend: 0, drop_obj: 0, open_gate: 2, yield_: 1, handle_use: 9 },
    body_yield: 400,
    body_gate: 400,
    body_block: 0,
    body_nested: 200,
    body_drop: 0,
    env_gates: true,
    faults: true,
    prespawn_permille: 200,
    handle_w: [6, 5, 5, 1, 0, 1],
};

pub const WAKE: Profile = Profile {
    name: "wake",
    pools: &[0, 0, 1, 1, 2, 3],
    objs: (1, 2),
    threads: (1, 3),
    ops: (1, 4),
    w: Weights { desync: 3, sync: 4, try_sync: 0, future_desync: 8, after: 5, future_sync: 3, suspend: 0, drop_obj: 0, open_gate: 4, yield_: 2, handle_use: 6 },
    body_yield: 300,
    body_gate: 900,
    body_block: 0,
    body_nested: 0,
    body_drop: 0,
    env_gates: true,
    faults: true,
    prespawn_permille: 300,
    handle_w: [6, 4, 1, 3, 2, 1],
};

pub const SUSPEND: Profile = Profile {
    name: "suspend",
    pools: &[0, 1, 1, 2, 3],
    objs: (1, 2),
    threads: (1, 4),
    ops: (2, 6),
    w: Weights { desync: 6, sync: 4, try_sync: 1, future_desync: 2, after: 1, future_sync: 1, suspend: 5, drop_obj: 0, open_gate: 1, yield_: 2, handle_use: 8 },
    body_yield: 400,
    body_gate: 150,
    body_block: 0,
    body_nested: 0,
    body_drop: 0,
    env_gates: true,
    faults: true,
    prespawn_permille: 200,
    handle_w: [6, 2, 1, 2, 1, 1],
};

thread_local! {
    /// thorough tier: every second case is generated with larger bounds (one more thread, three more operations per thread)
    pub static BIG: std::cell::Cell<bool> = const { std::cell::Cell::new(false) };
}

pub struct Gen<'a> {
    /// pool 0 with one context: a future that has been polled is awaited to completion
    /// (nothing else could ever run the queue its poll has claimed)
    pub no_abandon: bool,
    /// pool 0 with several contexts: futures are only ever polled once at a time (PollOnce), never waited for
    pub no_await: bool,
    pub rng: &'a mut Rng,
    next_id: u32,
    pub n_gates: usize,
    pub n_handles: usize,
    pub n_objs: usize,
    /// operations are generated on objects obj_lo..n_objs only
    pub obj_lo: usize,
}

#[derive(Clone, Copy, PartialEq)]
enum HK {
    FutureDesync,
    After,
    FutureSync,
    Suspend,
    Resumer,
}

impl<'a> Gen<'a> {
    pub fn new(rng: &'a mut Rng, n_objs: usize) -> Gen<'a> {
        Gen { no_abandon: false, no_await: false, rng, next_id: 0, n_gates: 0, n_handles: 0, n_objs, obj_lo: 0 }
    }
    pub fn id(&mut self) -> u32 {
        let i = self.next_id;
        self.next_id += 1;
        i
    }
    pub fn op(&mut self, k: OpKind) -> Op {
        Op { id: self.id(), k }
    }
    pub fn gate(&mut self) -> usize {
        // reuse an existing gate sometimes so that several waiters share an event
        if self.n_gates > 0 && self.n_gates >= 4 || (self.n_gates > 0 && self.rng.permille(300)) {
            self.rng.below(self.n_gates as u64) as usize
        } else {
            self.n_gates += 1;
            self.n_gates - 1
        }
    }
    pub fn handle(&mut self) -> usize {
        self.n_handles += 1;
        self.n_handles - 1
    }

    /// body of a closure operation (sync-like): may block the thread, may call other objects
    pub fn closure_body(&mut self, p: &Profile, o: usize, allow_block: bool, depth: u32) -> Vec<Step> {
        let mut b = vec![];
        if self.rng.permille(p.body_yield) {
            b.push(Step::Yield(self.rng.range(1, 3) as u8));
        }
        if allow_block && self.rng.permille(p.body_block) {
            let g = self.gate();
            b.push(Step::BlockOn(g));
        }
        if depth < 2 && o + 1 < self.n_objs && self.rng.permille(p.body_nested) {
            let o2 = self.rng.range(o as u64 + 1, self.n_objs as u64 - 1) as usize;
            let k = match self.rng.below(4) {
                0 => OpKind::Desync { o: o2, body: self.closure_body(p, o2, false, depth + 1) },
                1 => OpKind::TrySync { o: o2, body: self.closure_body(p, o2, false, depth + 1) },
                _ => OpKind::Sync { o: o2, body: self.closure_body(p, o2, false, depth + 1) },
            };
            let n = self.op(k);
            b.push(Step::Nested(Box::new(n)));
        }
        if depth == 0 && o + 1 < self.n_objs && self.rng.permille(p.body_drop) {
            let o2 = self.rng.range(o as u64 + 1, self.n_objs as u64 - 1) as usize;
            b.push(Step::DropObj(o2));
        }
        if self.rng.permille(p.body_yield / 3) {
            b.push(Step::Yield(1));
        }
        b
    }

    /// body of a future operation: may await gates and other objects' futures
    pub fn future_body(&mut self, p: &Profile, o: usize, depth: u32) -> Vec<Step> {
        let mut b = vec![];
        if self.rng.permille(40) {
            b.push(Step::WakeSelf);
        }
        if self.rng.permille(p.body_yield) {
            b.push(Step::Yield(self.rng.range(1, 2) as u8));
        }
        if self.rng.permille(p.body_gate) {
            let g = self.gate();
            if self.rng.permille(200) {
                // select: whichever fires first; the other event source keeps a waker of this operation
                let g2 = self.gate();
                if g2 != g {
                    b.push(Step::AwaitAny(g, g2));
                } else {
                    b.push(Step::AwaitGate(g));
                }
            } else {
                b.push(Step::AwaitGate(g));
            }
            if self.rng.permille(300) {
                b.push(Step::Yield(1));
            }
            if self.rng.permille(150) {
                let g2 = self.gate();
                b.push(Step::AwaitGate(g2));
            }
        }
        if depth < 2 && o + 1 < self.n_objs && self.rng.permille(p.body_nested) {
            let o2 = self.rng.range(o as u64 + 1, self.n_objs as u64 - 1) as usize;
            let h = usize::MAX;
            let k = match self.rng.below(4) {
                0 => OpKind::FutureDesync { o: o2, body: self.future_body(p, o2, depth + 1), h },
                1 => OpKind::Sync { o: o2, body: self.closure_body(p, o2, false, depth + 1) },
                _ => OpKind::FutureSync { o: o2, body: self.future_body(p, o2, depth + 1), h },
            };
            let n = self.op(k);
            b.push(Step::Nested(Box::new(n)));
        }
        b
    }

    fn use_handle(&mut self, p: &Profile, held: &mut Vec<(usize, HK)>, idx: usize, out: &mut Vec<Op>) {
        let (h, k) = held[idx];
        match k {
            HK::Resumer => {
                held.remove(idx);
                let kk = if self.rng.permille(700) { OpKind::Resume { h } } else { OpKind::DropResumer { h } };
                let op = self.op(kk);
                out.push(op);
            }
            HK::Suspend => {
                let c = if self.no_abandon || self.no_await { 0 } else { self.rng.weighted(&[6, 2, 1]) };
                match c {
                    0 => {
                        held[idx].1 = HK::Resumer;
                        let op = self.op(OpKind::Await { h });
                        out.push(op);
                        if self.no_abandon || self.no_await {
                            // no pool thread: the context that suspended the queue resumes it before it waits for anything else
                            held.remove(idx);
                            let kk = if self.rng.permille(700) { OpKind::Resume { h } } else { OpKind::DropResumer { h } };
                            let op = self.op(kk);
                            out.push(op);
                        }
                    }
                    1 => {
                        let op = self.op(OpKind::PollOnce { h });
                        out.push(op);
                    }
                    _ => {
                        held.remove(idx);
                        let op = self.op(OpKind::DropHandle { h });
                        out.push(op);
                    }
                }
            }
            _ => {
                let mut wts = p.handle_w;
                if k != HK::FutureDesync {
                    wts[4] = 0; // .sync() exists on SchedulerFuture only
                }
                if k == HK::FutureSync {
                    wts[3] = 0;
                }
                if self.no_abandon {
                    wts[1] = 0;
                }
                if self.no_await {
                    wts[0] = 0;
                    wts[4] = 0;
                    wts[1] += 3;
                }
                let c = self.rng.weighted(&wts);
                let kk = match c {
                    0 => OpKind::Await { h },
                    1 => OpKind::PollOnce { h },
                    2 => OpKind::DropHandle { h },
                    3 => OpKind::Detach { h },
                    4 => OpKind::SyncWait { h },
                    _ => return,
                };
                if c != 1 {
                    held.remove(idx);
                }
                let op = self.op(kk);
                out.push(op);
            }
        }
    }

    pub fn thread(&mut self, p: &Profile, n_ops: usize, pool0_sync_only: bool) -> Vec<Op> {
        let mut out = vec![];
        let mut held: Vec<(usize, HK)> = vec![];
        let w = &p.w;
        for _ in 0..n_ops {
            let fs_outstanding = held.iter().any(|(_, k)| *k == HK::FutureSync);
            let mut wt = [w.desync, w.sync, w.try_sync, w.future_desync, w.after, w.future_sync, w.suspend, w.drop_obj, w.open_gate, w.yield_, if held.is_empty() { 0 } else { w.handle_use }];
            if pool0_sync_only {
                wt[4] = 0;
                wt[5] = 0;
                wt[6] = 0;
            }
            if self.no_await {
                wt[5] = 0;
                wt[6] = 0;
            }
            if fs_outstanding {
                // while this thread holds an unfinished future_sync it makes no blocking call
                wt[1] = 0;
                wt[7] = 0;
                wt[10] *= 3;
            }
            let c = self.rng.weighted(&wt);
            let o = self.rng.range(self.obj_lo as u64, self.n_objs as u64 - 1) as usize;
            match c {
                0 => {
                    let body = self.closure_body(p, o, true, 0);
                    let op = self.op(OpKind::Desync { o, body });
                    out.push(op);
                }
                1 => {
                    let body = self.closure_body(p, o, false, 0);
                    let op = self.op(OpKind::Sync { o, body });
                    out.push(op);
                }
                2 => {
                    let mut body = vec![];
                    if self.rng.permille(p.body_yield) {
                        body.push(Step::Yield(self.rng.range(1, 2) as u8));
                    }
                    let op = self.op(OpKind::TrySync { o, body });
                    out.push(op);
                }
                3 => {
                    let body = self.future_body(p, o, 0);
                    let h = self.handle();
                    let op = self.op(OpKind::FutureDesync { o, body, h });
                    out.push(op);
                    if pool0_sync_only {
                        let op = self.op(OpKind::Detach { h });
                        out.push(op);
                    } else {
                        held.push((h, HK::FutureDesync));
                    }
                }
                4 => {
                    let body = self.closure_body(p, o, false, 0);
                    let h = self.handle();
                    let gate = self.gate();
                    let op = self.op(OpKind::After { o, gate, body, h });
                    out.push(op);
                    held.push((h, HK::After));
                }
                5 => {
                    let body = self.future_body(p, o, 0);
                    let h = self.handle();
                    let op = self.op(OpKind::FutureSync { o, body, h });
                    out.push(op);
                    held.push((h, HK::FutureSync));
                }
                6 => {
                    let h = self.handle();
                    let op = self.op(OpKind::Suspend { o, h });
                    out.push(op);
                    held.push((h, HK::Suspend));
                }
                7 => {
                    let k = if self.rng.permille(250) { OpKind::DropObjPanicking { o } } else { OpKind::DropObj { o } };
                    let op = self.op(k);
                    out.push(op);
                }
                8 => {
                    if self.n_gates > 0 {
                        let g = self.rng.below(self.n_gates as u64) as usize;
                        let op = self.op(OpKind::OpenGate { g });
                        out.push(op);
                    }
                }
                9 => {
                    let n = self.rng.range(1, 3) as u8;
                    let op = self.op(OpKind::Yield(n));
                    out.push(op);
                }
                _ => {
                    let idx = self.rng.below(held.len() as u64) as usize;
                    self.use_handle(p, &mut held, idx, &mut out);
                }
            }
        }
        // what happens to handles still held: mostly resolved one way or another, sometimes left
        let mut guard = 0;
        while !held.is_empty() && guard < 12 {
            guard += 1;
            if self.rng.permille(150) {
                held.remove(0);
                continue;
            }
            self.use_handle(p, &mut held, 0, &mut out);
        }
        out
    }

    pub fn env_gates(&mut self, n: usize) -> Vec<Op> {
        let mut out = vec![];
        if self.n_gates == 0 {
            return out;
        }
        for _ in 0..n {
            let g = self.rng.below(self.n_gates as u64) as usize;
            let k = match self.rng.weighted(&[5, 2, 2, 3]) {
                0 => OpKind::OpenGate { g },
                1 => OpKind::Poke { g },
                2 => OpKind::WakeStale { g },
                _ => OpKind::Yield(self.rng.range(1, 4) as u8),
            };
            let op = self.op(k);
            out.push(op);
        }
        out
    }
}

pub fn gen_faults(rng: &mut Rng, enabled: bool) -> Faults {
    if !enabled {
        return Faults::default();
    }
    // swarm: each fault kind is on in a random subset of runs
    let pick = |rng: &mut Rng, on: u32, choices: &[u32]| -> u32 {
        if rng.permille(on) {
            *rng.pick(choices)
        } else {
            0
        }
    };
    Faults {
        spurious_cv_permille: pick(rng, 350, &[30, 100, 250]),
        spurious_park_permille: pick(rng, 350, &[30, 100, 250]),
        self_wake_permille: pick(rng, 300, &[100, 300, 600]),
        dup_wake_permille: pick(rng, 300, &[100, 300, 600]),
        keep_waker_permille: pick(rng, 300, &[300, 1000]),
    }
}

pub fn gen_general(rng: &mut Rng, p: &Profile) -> Program {
    let pool_max = *rng.pick(p.pools);
    let big = BIG.with(|b| b.get());
    let n_objs = rng.range(p.objs.0, p.objs.1) as usize;
    let mut n_threads = rng.range(p.threads.0, p.threads.1 + big as u64) as usize;
    // pool 0: only the shapes for which something is promised
    let mut sync_only = false;
    let mut no_await = false;
    if pool_max == 0 {
        match rng.weighted(&[4, 3, 3]) {
            0 => sync_only = true,
            1 => n_threads = 1,
            // several contexts that poll futures once and walk away; whoever syncs takes the queue over
            _ => no_await = true,
        }
    }
    let faults = gen_faults(rng, p.faults);
    let prespawn = pool_max > 0 && rng.permille(p.prespawn_permille);
    let mut g = Gen::new(rng, n_objs);
    g.no_abandon = pool_max == 0 && !sync_only && !no_await;
    g.no_await = no_await;
    let mut threads = vec![];
    for _ in 0..n_threads {
        let n_ops = g.rng.range(p.ops.0, p.ops.1 + if big { 3 } else { 0 }) as usize;
        threads.push(g.thread(p, n_ops, sync_only));
    }
    let env = if p.env_gates && g.rng.permille(700) {
        let n = g.rng.range(1, 5) as usize;
        g.env_gates(n)
    } else {
        vec![]
    };
    let (n_gates, n_handles) = (g.n_gates, g.n_handles);
    Program {
        pool_max,
        prespawn,
        n_objs,
        n_gates,
        n_streams: 0,
        n_handles,
        n_outs: 0,
        phases: vec![Phase { ctl: vec![], threads, env_gates: env, env_streams: vec![] }],
        faults,
        blocking_gates: vec![],
        blocked_objs: vec![],
        capacity_probe: vec![],
        mark_on_stream_poll: None,
        raw_objs: vec![],
    }
}
