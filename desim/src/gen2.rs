//! Specialised scenario families: pool size (C17), isolation (C10), panics (C15), drops (C05),
//! pipes (C11, C12, C16) and the position-sweep templates.

use crate::gen::*;
use crate::ir::*;
use desync_verif_rt::strategy::Rng;

pub const DROP: Profile = Profile {
    name: "drop",
    pools: &[0, 1, 1, 2, 3],
    objs: (1, 3),
    threads: (1, 4),
    ops: (1, 5),
    w: Weights { desync: 6, sync: 3, try_sync: 1, future_desync: 4, after: 2, future_sync: 1, suspend: 0, drop_obj: 4, open_gate: 2, yield_: 2, handle_use: 3 },
    body_yield: 500,
    body_gate: 350,
    body_block: 60,
    body_nested: 120,
    body_drop: 250,
    env_gates: true,
    faults: true,
    prespawn_permille: 300,
    handle_w: [3, 2, 2, 4, 1, 2],
};

pub const POOLISH: Profile = Profile {
    name: "pool",
    pools: &[1, 2, 3],
    objs: (2, 3),
    threads: (2, 4),
    ops: (1, 5),
    w: Weights { desync: 9, sync: 3, try_sync: 1, future_desync: 3, after: 1, future_sync: 0, suspend: 0, drop_obj: 0, open_gate: 1, yield_: 2, handle_use: 2 },
    body_yield: 500,
    body_gate: 150,
    body_block: 100,
    body_nested: 150,
    body_drop: 0,
    env_gates: true,
    faults: true,
    prespawn_permille: 0,
    handle_w: [2, 1, 2, 5, 1, 2],
};

pub const HEALTHY: Profile = Profile {
    name: "healthy",
    pools: &[1, 2, 3],
    objs: (2, 4),
    threads: (1, 3),
    ops: (1, 4),
    w: Weights { desync: 6, sync: 5, try_sync: 2, future_desync: 3, after: 1, future_sync: 1, suspend: 0, drop_obj: 0, open_gate: 1, yield_: 1, handle_use: 4 },
    body_yield: 400,
    body_gate: 200,
    body_block: 0,
    body_nested: 80,
    body_drop: 0,
    env_gates: true,
    faults: false,
    prespawn_permille: 0,
    handle_w: [5, 2, 2, 3, 1, 1],
};

fn base_program(pool_max: usize, n_objs: usize) -> Program {
    let mut p = Program::empty(pool_max);
    p.n_objs = n_objs;
    p
}

fn finish(mut p: Program, g: &Gen) -> Program {
    p.n_gates = p.n_gates.max(g.n_gates);
    p.n_handles = p.n_handles.max(g.n_handles);
    p
}

// ---- C05 --------------------------------------------------------------------------------

pub fn gen_drop(rng: &mut Rng) -> Program {
    gen_general(rng, &DROP)
}

// ---- C17 --------------------------------------------------------------------------------

pub fn gen_pool(rng: &mut Rng) -> Program {
    if rng.permille(150) {
        // a maximum of zero: no pool thread may ever exist, callers carry the work
        let mut p = gen_general(rng, &crate::gen::DRAIN_STEAL);
        if p.pool_max != 0 {
            p = gen_general(rng, &crate::gen::SYNC_STATES);
        }
        if p.pool_max == 0 {
            return p;
        }
    }
    let pool_max = rng.range(1, 3) as usize;
    let n_objs = rng.range(2, 3) as usize;
    let faults = gen_faults(rng, true);
    let n_phases = rng.range(1, 3) as usize;
    let mut prog = base_program(pool_max, n_objs);
    prog.faults = faults;
    prog.phases.clear();
    let mut g = Gen::new(rng, n_objs);
    let mut cur = pool_max;
    for pi in 0..n_phases {
        let mut ctl = vec![];
        if pi > 0 {
            let n_ctl = g.rng.range(1, 3);
            for _ in 0..n_ctl {
                let c = match g.rng.weighted(&[4, 3, 2, 4]) {
                    0 => {
                        cur = g.rng.range(1, 3) as usize;
                        CtlOp::SetMaxLazy(cur)
                    }
                    1 => {
                        cur = g.rng.range(1, 3) as usize;
                        CtlOp::SetMaxEager(cur)
                    }
                    2 => CtlOp::SpawnExtra,
                    _ => CtlOp::Despawn,
                };
                ctl.push(c);
            }
        }
        let n_threads = g.rng.range(2, 4) as usize;
        let mut threads = vec![];
        for _ in 0..n_threads {
            let n = g.rng.range(1, 5) as usize;
            threads.push(g.thread(&POOLISH, n, false));
        }
        let env = if g.rng.permille(500) {
            let n = g.rng.range(1, 3) as usize;
            g.env_gates(n)
        } else {
            vec![]
        };
        // despawning while the pool is at work: a caller thread asks for it in the middle of the phase
        if pi > 0 && g.rng.permille(400) {
            let mut t = vec![];
            let y = g.rng.range(1, 6) as u8;
            t.push({ let __k = OpKind::Yield(y); g.op(__k) });
            t.push({ let __k = OpKind::Despawn; g.op(__k) });
            threads.push(t);
        }
        prog.phases.push(Phase { ctl, threads, env_gates: env, env_streams: vec![] });
    }
    let _ = cur;
    finish(prog, &g)
}

// ---- C10 --------------------------------------------------------------------------------

/// C17: pool threads have died of panicking jobs; afterwards several threads schedule work on fresh objects at once, so
/// that reaping the dead threads, replacing them and waking dormant ones all race.
pub fn gen_pool_panic(rng: &mut Rng) -> Program {
    let pool_max = rng.range(1, 3) as usize;
    let n_victims = rng.range(1, pool_max as u64) as usize;
    let n_fresh = rng.range(3, 5) as usize;
    let n_objs = n_victims + n_fresh;
    let mut g = Gen::new(rng, n_objs);
    let mut t0 = vec![];
    for v in 0..n_victims {
        let mut body = vec![];
        if g.rng.permille(400) {
            body.push(Step::Yield(1));
        }
        body.push(Step::Panic);
        t0.push({ let __k = OpKind::Desync { o: v, body }; g.op(__k) });
    }
    let n_threads = g.rng.range(3, 4) as usize;
    let mut threads = vec![];
    for _ in 0..n_threads {
        let mut t = vec![];
        let n = g.rng.range(1, 3);
        for _ in 0..n {
            let o = n_victims + g.rng.below(n_fresh as u64) as usize;
            let y = g.rng.range(0, 2) as u8;
            let body = if y > 0 { vec![Step::Yield(y)] } else { vec![] };
            t.push({ let __k = OpKind::Desync { o, body }; g.op(__k) });
        }
        threads.push(t);
    }
    let mut prog = base_program(pool_max, n_objs);
    prog.prespawn = g.rng.permille(500);
    let ctl1 = if g.rng.permille(250) { vec![CtlOp::Despawn] } else { vec![] };
    prog.phases = vec![
        Phase { ctl: vec![], threads: vec![t0], env_gates: vec![], env_streams: vec![] },
        Phase { ctl: ctl1, threads, env_gates: vec![], env_streams: vec![] },
    ];
    finish(prog, &g)
}

pub fn gen_isolate(rng: &mut Rng) -> Program {
    let n_free = rng.range(1, 2) as usize;
    let n_blocked = rng.range(1, 2) as usize;
    let n_objs = n_free + n_blocked;
    let mut g = Gen::new(rng, n_objs);
    let mut blockers = vec![];
    let mut thread_blockers = 0;
    let mut blocking_gates = vec![];
    let mut pokes: Vec<usize> = vec![];
    for b in 0..n_blocked {
        let o = n_free + b;
        let gate = g.n_gates;
        g.n_gates += 1;
        blocking_gates.push(gate);
        let kind = g.rng.weighted(&[5, 3, 2]);
        match kind {
            0 => {
                thread_blockers += 1;
                let op = { let __k = OpKind::Desync { o, body: vec![Step::Yield(1), Step::BlockOn(gate)] }; g.op(__k) };
                blockers.push(op);
            }
            1 => {
                let h = g.handle();
                // the suspended operation may be woken while it is being polled (by itself, or by a stray wake-up of its
                // event source) and still have to go on waiting: it must be parked all the same
                let body = match g.rng.below(3) {
                    0 => vec![Step::AwaitGate(gate), Step::Yield(1)],
                    1 => vec![Step::WakeSelf, Step::AwaitGate(gate), Step::Yield(1)],
                    _ => {
                        pokes.push(gate);
                        vec![Step::AwaitGate(gate), Step::Yield(1)]
                    }
                };
                let op = { let __k = OpKind::FutureDesync { o, body, h }; g.op(__k) };
                blockers.push(op);
                let op = { let __k = OpKind::Detach { h }; g.op(__k) };
                blockers.push(op);
            }
            _ => {
                let h = g.handle();
                let op = { let __k = OpKind::After { o, gate, body: vec![Step::Yield(1)], h }; g.op(__k) };
                blockers.push(op);
                let op = { let __k = OpKind::Detach { h }; g.op(__k) };
                blockers.push(op);
            }
        }
        // more work piles up behind the blocked operation
        if g.rng.permille(500) {
            let op = { let __k = OpKind::Desync { o, body: vec![] }; g.op(__k) };
            blockers.push(op);
        }
    }
    let pool_max = (thread_blockers + 1 + g.rng.below(2) as usize).min(3).max(1);
    let mut threads = vec![blockers];
    // a caller stuck in sync behind a blocked operation does not occupy the pool
    if g.rng.permille(400) {
        let o = n_free + g.rng.below(n_blocked as u64) as usize;
        let op = { let __k = OpKind::Sync { o, body: vec![] }; g.op(__k) };
        threads.push(vec![{ let __k = OpKind::Yield(2); g.op(__k) }, op]);
    }
    // work on the free objects: plain bodies, nothing that waits for anything external
    let n_threads = g.rng.range(1, 3) as usize;
    for _ in 0..n_threads {
        let n = g.rng.range(1, 5) as usize;
        let mut t = vec![];
        let mut held: Vec<usize> = vec![];
        for _ in 0..n {
            let o = g.rng.below(n_free as u64) as usize;
            let y = g.rng.range(0, 2) as u8;
            let body = if y > 0 { vec![Step::Yield(y)] } else { vec![] };
            match g.rng.weighted(&[6, 3, 1, 3, 2]) {
                0 => t.push({ let __k = OpKind::Desync { o, body }; g.op(__k) }),
                1 => t.push({ let __k = OpKind::Sync { o, body }; g.op(__k) }),
                2 => t.push({ let __k = OpKind::TrySync { o, body }; g.op(__k) }),
                3 => {
                    let h = g.handle();
                    t.push({ let __k = OpKind::FutureDesync { o, body, h }; g.op(__k) });
                    held.push(h);
                }
                _ => t.push({ let __k = OpKind::Yield(2); g.op(__k) }),
            }
        }
        for h in held {
            let k = match g.rng.below(3) {
                0 => OpKind::Await { h },
                1 => OpKind::Detach { h },
                _ => OpKind::SyncWait { h },
            };
            t.push({ let __k = k; g.op(__k) });
        }
        threads.push(t);
    }
    let prespawn = g.rng.permille(400);
    let mut prog = base_program(pool_max, n_objs);
    prog.prespawn = prespawn;
    let mut envg = vec![];
    for gate in pokes {
        let n = g.rng.range(1, 3);
        for _ in 0..n {
            envg.push({ let __k = OpKind::Yield(g.rng.range(1, 3) as u8); g.op(__k) });
            envg.push({ let __k = OpKind::Poke { g: gate }; g.op(__k) });
        }
    }
    prog.phases = vec![Phase { ctl: vec![], threads, env_gates: envg, env_streams: vec![] }];
    prog.blocking_gates = blocking_gates;
    prog.blocked_objs = (n_free..n_objs).collect();
    prog.faults = Faults { spurious_cv_permille: if g.rng.permille(300) { 100 } else { 0 }, spurious_park_permille: 0, self_wake_permille: 0, dup_wake_permille: 0, keep_waker_permille: 0 };
    finish(prog, &g)
}

/// C10 after the maximum is raised: work piles up on several objects while no pool thread is allowed (phase 0, only
/// non-blocking calls); the public `set_max_threads` then raises the maximum above the number of jobs that will stall a
/// thread (phase 1).  The stalled objects must not keep the others waiting: the pool may still spawn.
pub fn gen_isolate_raise(rng: &mut Rng) -> Program {
    let n_free = rng.range(1, 2) as usize;
    let n_blocked = rng.range(1, 2) as usize;
    let n_objs = n_free + n_blocked;
    let mut g = Gen::new(rng, n_objs);
    let mut blocking_gates = vec![];
    let mut thread_blockers = 0;
    let mut calls: Vec<Vec<Op>> = vec![];
    for b in 0..n_blocked {
        let o = n_free + b;
        let gate = g.n_gates;
        g.n_gates += 1;
        blocking_gates.push(gate);
        let mut c = vec![];
        if g.rng.permille(700) {
            thread_blockers += 1;
            c.push({ let __k = OpKind::Desync { o, body: vec![Step::Yield(1), Step::BlockOn(gate)] }; g.op(__k) });
        } else {
            let h = g.handle();
            c.push({ let __k = OpKind::FutureDesync { o, body: vec![Step::AwaitGate(gate), Step::Yield(1)], h }; g.op(__k) });
            c.push({ let __k = OpKind::Detach { h }; g.op(__k) });
        }
        if g.rng.permille(400) {
            c.push({ let __k = OpKind::Desync { o, body: vec![] }; g.op(__k) });
        }
        calls.push(c);
    }
    for o in 0..n_free {
        let mut c = vec![];
        for _ in 0..g.rng.range(1, 3) {
            let y = g.rng.range(0, 2) as u8;
            let body = if y > 0 { vec![Step::Yield(y)] } else { vec![] };
            if g.rng.permille(700) {
                c.push({ let __k = OpKind::Desync { o, body }; g.op(__k) });
            } else {
                let h = g.handle();
                c.push({ let __k = OpKind::FutureDesync { o, body, h }; g.op(__k) });
                c.push({ let __k = OpKind::Detach { h }; g.op(__k) });
            }
        }
        calls.push(c);
    }
    // the order in which the objects enter the schedule is part of the case; one or two calling threads
    let mut order: Vec<usize> = (0..calls.len()).collect();
    for i in (1..order.len()).rev() {
        let j = g.rng.below(i as u64 + 1) as usize;
        order.swap(i, j);
    }
    let two = g.rng.permille(400);
    let mut threads: Vec<Vec<Op>> = vec![vec![], vec![]];
    for (k, ci) in order.into_iter().enumerate() {
        let t = if two { k % 2 } else { 0 };
        threads[t].extend(calls[ci].clone());
    }
    threads.retain(|t| !t.is_empty());
    let raised = thread_blockers + 1 + g.rng.below(2) as usize;
    let mut prog = base_program(0, n_objs);
    let idle = vec![{ let __k = OpKind::Yield(2); g.op(__k) }];
    prog.phases = vec![
        Phase { ctl: vec![], threads, env_gates: vec![], env_streams: vec![] },
        Phase { ctl: vec![CtlOp::SetMaxEager(raised)], threads: vec![idle], env_gates: vec![], env_streams: vec![] },
    ];
    prog.blocking_gates = blocking_gates;
    prog.blocked_objs = (n_free..n_objs).collect();
    finish(prog, &g)
}

// ---- C15 --------------------------------------------------------------------------------

/// `variant` selects which kind of operation panics and in which runner context.
pub fn gen_panic_variant(rng: &mut Rng, variant: u64) -> Program {
    let pool_max = rng.range(1, 3) as usize;
    let n_objs = pool_max + 1 + rng.below(2) as usize;
    let mut g = Gen::new(rng, n_objs);
    g.obj_lo = 1;
    let p_obj = 0usize;
    let mut phase0_threads: Vec<Vec<Op>> = vec![];
    let mut t0 = vec![];
    // blockers keep every pool thread busy so that callers have to run the panicking queue themselves
    let mut add_blockers = |g: &mut Gen, threads: &mut Vec<Vec<Op>>, t0: &mut Vec<Op>| {
        let mut t = vec![];
        for i in 0..pool_max {
            let started = g.n_gates;
            let gate = g.n_gates + 1;
            g.n_gates += 2;
            t.push({ let __k = OpKind::Desync { o: 1 + i, body: vec![Step::OpenGate(started), Step::BlockOn(gate)] }; g.op(__k) });
            // the panicking thread only starts once every pool thread is stalled inside a blocker
            t0.push({ let __k = OpKind::WaitGate { g: started }; g.op(__k) });
        }
        threads.push(t);
    };
    let y = |g: &mut Gen| -> Vec<Step> {
        let n = g.rng.range(0, 2) as u8;
        if n > 0 {
            vec![Step::Yield(n), Step::Panic]
        } else {
            vec![Step::Panic]
        }
    };
    // future bodies may be woken again during the very poll in which they panic: by a second event they
    // also waited for (select), or by waking themselves
    let mut env0: Vec<Op> = vec![];
    let mut fy = |g: &mut Gen, env0: &mut Vec<Op>| -> Vec<Step> {
        match g.rng.below(4) {
            0 => {
                let g1 = g.n_gates;
                let g2 = g.n_gates + 1;
                g.n_gates += 2;
                env0.push({ let __k = OpKind::Yield(1); g.op(__k) });
                env0.push({ let __k = OpKind::OpenGate { g: g1 }; g.op(__k) });
                let n = g.rng.range(0, 2) as u8;
                if n > 0 {
                    env0.push({ let __k = OpKind::Yield(n); g.op(__k) });
                }
                env0.push({ let __k = if g.rng.permille(500) { OpKind::OpenGate { g: g2 } } else { OpKind::Poke { g: g2 } }; g.op(__k) });
                vec![Step::AwaitAny(g1, g2), Step::Yield(g.rng.range(1, 3) as u8), Step::Panic]
            }
            1 => vec![Step::WakeSelf, Step::Yield(1), Step::Panic],
            _ => {
                let mut b = vec![];
                if g.rng.permille(500) {
                    let gate = g.gate();
                    b.push(Step::AwaitGate(gate));
                }
                let n = g.rng.range(0, 2) as u8;
                if n > 0 {
                    b.push(Step::Yield(n));
                }
                b.push(Step::Panic);
                b
            }
        }
    };
    // work accepted behind the panicking operation (it never runs); its future is waited for once the panic is over:
    // the wait must end (panic or cancellation), not hang
    let follow: Option<HandleId> = if !matches!(variant % 11, 3 | 4 | 8 | 10) && g.rng.permille(600) { Some(g.handle()) } else { None };
    let push_follow = |g: &mut Gen, t0: &mut Vec<Op>| {
        if let Some(h) = follow {
            t0.push({ let __k = OpKind::FutureDesync { o: p_obj, body: vec![], h }; g.op(__k) });
        }
    };
    match variant % 11 {
        0 => {
            t0.push({ let __k = OpKind::Desync { o: p_obj, body: y(&mut g) }; g.op(__k) });
            push_follow(&mut g, &mut t0);
        }
        1 => {
            let h = g.handle();
            let body = fy(&mut g, &mut env0);
            t0.push({ let __k = OpKind::FutureDesync { o: p_obj, body, h }; g.op(__k) });
            push_follow(&mut g, &mut t0);
            t0.push({ let __k = OpKind::Detach { h }; g.op(__k) });
        }
        2 => {
            let h = g.handle();
            let gate = g.gate();
            t0.push({ let __k = OpKind::After { o: p_obj, gate, body: y(&mut g), h }; g.op(__k) });
            push_follow(&mut g, &mut t0);
            t0.push({ let __k = OpKind::Detach { h }; g.op(__k) });
        }
        3 => t0.push({ let __k = OpKind::Sync { o: p_obj, body: y(&mut g) }; g.op(__k) }),
        4 => t0.push({ let __k = OpKind::TrySync { o: p_obj, body: vec![Step::Panic] }; g.op(__k) }),
        5 => {
            // drain mode: the pool is busy, the sync caller finds the queue pending and runs the panicking job
            add_blockers(&mut g, &mut phase0_threads, &mut t0);
            t0.push({ let __k = OpKind::Yield(3); g.op(__k) });
            t0.push({ let __k = OpKind::Desync { o: p_obj, body: y(&mut g) }; g.op(__k) });
            push_follow(&mut g, &mut t0);
            t0.push({ let __k = OpKind::Sync { o: p_obj, body: vec![] }; g.op(__k) });
        }
        6 => {
            // steal mode: the caller waits behind an immediate sync, then claims the queue and runs the panicking job
            add_blockers(&mut g, &mut phase0_threads, &mut t0);
            let mut t1 = vec![];
            t1.push({ let __k = OpKind::Sync { o: p_obj, body: vec![Step::Yield(3)] }; g.op(__k) });
            phase0_threads.push(t1);
            t0.push({ let __k = OpKind::Yield(1); g.op(__k) });
            t0.push({ let __k = OpKind::Desync { o: p_obj, body: y(&mut g) }; g.op(__k) });
            push_follow(&mut g, &mut t0);
            t0.push({ let __k = OpKind::Sync { o: p_obj, body: vec![] }; g.op(__k) });
        }
        7 => {
            // polling task: the pool is busy, the awaiting task drains the queue and meets the panic in poll
            add_blockers(&mut g, &mut phase0_threads, &mut t0);
            t0.push({ let __k = OpKind::Yield(3); g.op(__k) });
            let h = g.handle();
            let body = fy(&mut g, &mut env0);
            t0.push({ let __k = OpKind::FutureDesync { o: p_obj, body, h }; g.op(__k) });
            push_follow(&mut g, &mut t0);
            t0.push({ let __k = OpKind::Await { h }; g.op(__k) });
        }
        8 => {
            let h = g.handle();
            let mut body = vec![];
            if g.rng.permille(500) {
                let gate = g.gate();
                body.push(Step::AwaitGate(gate));
            }
            body.extend(y(&mut g));
            t0.push({ let __k = OpKind::FutureSync { o: p_obj, body, h }; g.op(__k) });
            t0.push({ let __k = OpKind::Await { h }; g.op(__k) });
        }
        10 => {
            // the queue is being run by a caller inside sync() that is parked on the slot of the future_sync: the panic surfaces
            // in the awaiting task while somebody else is inside the queue
            add_blockers(&mut g, &mut phase0_threads, &mut t0);
            let h = g.handle();
            let mut body = vec![];
            if g.rng.permille(500) {
                let gate = g.gate();
                body.push(Step::AwaitGate(gate));
            }
            body.extend(y(&mut g));
            t0.push({ let __k = OpKind::FutureSync { o: p_obj, body, h }; g.op(__k) });
            let mut t1 = vec![];
            t1.push({ let __k = OpKind::Yield(g.rng.range(0, 2) as u8); g.op(__k) });
            t1.push({ let __k = OpKind::Sync { o: p_obj, body: vec![] }; g.op(__k) });
            phase0_threads.push(t1);
            t0.push({ let __k = OpKind::Yield(g.rng.range(1, 4) as u8); g.op(__k) });
            t0.push({ let __k = OpKind::Await { h }; g.op(__k) });
        }
        _ => {
            // awaited future_desync with a free pool: panic on the pool thread, the awaiting task sees cancellation
            let h = g.handle();
            let body = fy(&mut g, &mut env0);
            t0.push({ let __k = OpKind::FutureDesync { o: p_obj, body, h }; g.op(__k) });
            push_follow(&mut g, &mut t0);
            t0.push({ let __k = OpKind::Await { h }; g.op(__k) });
        }
    }
    // the thread on which the panic surfaces goes on using the object at once (it has caught the panic: for it the panic is over)
    if matches!(variant % 11, 3 | 4 | 8 | 10) && g.rng.permille(600) {
        let n = g.rng.range(1, 2);
        for _ in 0..n {
            let o = p_obj;
            match g.rng.below(4) {
                0 => t0.push({ let __k = OpKind::Desync { o, body: vec![] }; g.op(__k) }),
                1 => t0.push({ let __k = OpKind::Sync { o, body: vec![] }; g.op(__k) }),
                2 => t0.push({ let __k = OpKind::TrySync { o, body: vec![] }; g.op(__k) }),
                _ => {
                    let h = g.handle();
                    t0.push({ let __k = OpKind::FutureDesync { o, body: vec![], h }; g.op(__k) });
                    t0.push({ let __k = OpKind::Detach { h }; g.op(__k) });
                }
            }
        }
    }
    phase0_threads.insert(0, t0);
    // healthy objects are in use while the panic happens -- only where no pool thread can die with work of
    // theirs still waiting for a thread (the property speaks about programs issued after the unwinding)
    if matches!(variant % 11, 3 | 4) && g.rng.permille(600) {
        let n = g.rng.range(1, 3) as usize;
        let t = g.thread(&HEALTHY, n, false);
        phase0_threads.push(t);
    }
    // phase 1: every kind of call on the panicked object, ordinary programs elsewhere
    let mut t_p = vec![];
    if let Some(h) = follow {
        match g.rng.below(3) {
            0 => t_p.push({ let __k = OpKind::Await { h }; g.op(__k) }),
            1 => t_p.push({ let __k = OpKind::SyncWait { h }; g.op(__k) }),
            _ => {
                t_p.push({ let __k = OpKind::PollOnce { h }; g.op(__k) });
                t_p.push({ let __k = OpKind::Await { h }; g.op(__k) });
            }
        }
    }
    let n_calls = g.rng.range(1, 4);
    for _ in 0..n_calls {
        let o = p_obj;
        match g.rng.below(6) {
            0 => t_p.push({ let __k = OpKind::Desync { o, body: vec![] }; g.op(__k) }),
            1 => t_p.push({ let __k = OpKind::Sync { o, body: vec![] }; g.op(__k) }),
            2 => t_p.push({ let __k = OpKind::TrySync { o, body: vec![] }; g.op(__k) }),
            3 => {
                let h = g.handle();
                t_p.push({ let __k = OpKind::FutureDesync { o, body: vec![], h }; g.op(__k) });
                t_p.push({ let __k = OpKind::Await { h }; g.op(__k) });
            }
            4 => {
                let h = g.handle();
                let gate = g.gate();
                t_p.push({ let __k = OpKind::After { o, gate, body: vec![], h }; g.op(__k) });
                t_p.push({ let __k = OpKind::Await { h }; g.op(__k) });
            }
            _ => {
                let h = g.handle();
                t_p.push({ let __k = OpKind::FutureSync { o, body: vec![], h }; g.op(__k) });
                t_p.push({ let __k = OpKind::Await { h }; g.op(__k) });
            }
        }
    }
    // the last owner of the panicked object goes away while its thread is unwinding from a panic of its own: the drop
    // can neither panic again (that would abort the process) nor wait
    if g.rng.permille(300) {
        t_p.push({ let __k = OpKind::DropObjPanicking { o: p_obj }; g.op(__k) });
    }
    let mut phase1_threads = vec![t_p];
    let n_threads = g.rng.range(1, 2) as usize;
    for _ in 0..n_threads {
        let n = g.rng.range(1, 4) as usize;
        let t = g.thread(&HEALTHY, n, false);
        phase1_threads.push(t);
    }
    // phase 2: the pool still has its full capacity: pool_max jobs can be stalled at the same time
    let mut t_c = vec![];
    let mut probe = vec![];
    for i in 0..pool_max {
        let gate = g.n_gates;
        g.n_gates += 1;
        let op = { let __k = OpKind::Desync { o: 1 + i, body: vec![Step::BlockOn(gate)] }; g.op(__k) };
        probe.push(op.id);
        t_c.push(op);
    }
    let mut prog = base_program(pool_max, n_objs);
    prog.phases = vec![
        Phase { ctl: vec![], threads: phase0_threads, env_gates: env0, env_streams: vec![] },
        Phase { ctl: vec![], threads: phase1_threads, env_gates: vec![], env_streams: vec![] },
        Phase { ctl: vec![], threads: vec![t_c], env_gates: vec![], env_streams: vec![] },
    ];
    prog.capacity_probe = probe;
    finish(prog, &g)
}

pub fn gen_panic(rng: &mut Rng) -> Program {
    let v = rng.below(11);
    gen_panic_variant(rng, v)
}

// ---- pipes ----------------------------------------------------------------------------------

fn item_body(g: &mut Gen) -> Vec<Step> {
    let mut b = vec![];
    if g.rng.permille(500) {
        b.push(Step::Yield(g.rng.range(1, 2) as u8));
    }
    if g.rng.permille(250) {
        let gate = g.gate();
        b.push(Step::AwaitGate(gate));
    }
    b
}

fn feeder(g: &mut Gen, s: usize, n_items: usize, close: bool) -> Vec<Op> {
    let mut out = vec![];
    for i in 0..n_items {
        if g.rng.permille(400) {
            let n = g.rng.range(1, 3) as u8;
            out.push({ let __k = OpKind::Yield(n); g.op(__k) });
        }
        out.push({ let __k = OpKind::Push { s, item: 10 + i as u32 }; g.op(__k) });
    }
    if close {
        if g.rng.permille(400) {
            out.push({ let __k = OpKind::Yield(2); g.op(__k) });
        }
        out.push({ let __k = OpKind::CloseStream { s }; g.op(__k) });
    }
    out
}

pub fn gen_pipe_in(rng: &mut Rng) -> Program {
    let pool_max = rng.range(1, 3) as usize;
    let n_objs = rng.range(1, 2) as usize;
    let faults = gen_faults(rng, true);
    let mut g = Gen::new(rng, n_objs);
    let o = 0;
    let s = 0;
    // (bursts: now and then a long run of items is ready at once, so that whatever the pipe does per batch is reached)
    let n_items = if g.rng.permille(250) { g.rng.range(8, 14) as usize } else { g.rng.range(0, 8) as usize };
    let prefilled = if g.rng.permille(300) { n_items } else { g.rng.range(0, n_items as u64) as usize };
    let mut t0 = vec![];
    // some items are there before the pipe exists
    for i in 0..prefilled {
        t0.push({ let __k = OpKind::Push { s, item: 10 + i as u32 }; g.op(__k) });
    }
    t0.push({ let __k = OpKind::PipeIn { o, s, body: item_body(&mut g), from: None }; g.op(__k) });
    let mut threads = vec![t0];
    // concurrent use of the same object
    if g.rng.permille(700) {
        let mut t = vec![];
        let n = g.rng.range(1, 4);
        for _ in 0..n {
            let y = g.rng.range(0, 2) as u8;
            let body = if y > 0 { vec![Step::Yield(y)] } else { vec![] };
            match g.rng.below(4) {
                0 => t.push({ let __k = OpKind::Desync { o, body }; g.op(__k) }),
                1 => t.push({ let __k = OpKind::Sync { o, body }; g.op(__k) }),
                2 => {
                    // an operation of the object's own that waits for an event: items then arrive while the queue is parked
                    let h = g.handle();
                    let gate = g.gate();
                    t.push({ let __k = OpKind::FutureDesync { o, body: vec![Step::AwaitGate(gate)], h }; g.op(__k) });
                    match g.rng.weighted(&[4, 3, 3]) {
                        0 => t.push({ let __k = OpKind::Detach { h }; g.op(__k) }),
                        1 => t.push({ let __k = OpKind::Await { h }; g.op(__k) }),
                        _ => {
                            // polled once by this thread (which then runs the queue, pipe items included, inside that poll)
                            // and then abandoned or dropped: the pool has to take over whatever was suspended inside the poll
                            if g.rng.permille(400) {
                                t.push({ let __k = OpKind::Yield(g.rng.range(1, 3) as u8); g.op(__k) });
                            }
                            t.push({ let __k = OpKind::PollOnce { h }; g.op(__k) });
                            if g.rng.permille(500) {
                                t.push({ let __k = OpKind::DropHandle { h }; g.op(__k) });
                            }
                        }
                    }
                }
                _ => t.push({ let __k = OpKind::Yield(2); g.op(__k) }),
            }
        }
        threads.push(t);
    }
    // the object may go away while the stream is still open
    let mut faults = faults;
    if g.rng.permille(400) {
        // a stream that wakes its waker from inside poll_next makes the pipe upgrade-and-release its
        // reference on the thread that runs the object's own job; should that be the last owner the drop
        // would run inside one of the object's own operations, which the library excludes
        faults.self_wake_permille = 0;
        let mut t = vec![];
        t.push({ let __k = OpKind::Yield(g.rng.range(1, 6) as u8); g.op(__k) });
        t.push({ let __k = OpKind::DropObj { o }; g.op(__k) });
        threads.push(t);
    }
    // remaining items arrive from the stream's own thread
    let mut env = vec![];
    for i in prefilled..n_items {
        if g.rng.permille(400) {
            let n = g.rng.range(1, 3) as u8;
            env.push({ let __k = OpKind::Yield(n); g.op(__k) });
        }
        env.push({ let __k = OpKind::Push { s, item: 10 + i as u32 }; g.op(__k) });
    }
    if g.rng.permille(600) {
        env.push({ let __k = OpKind::CloseStream { s }; g.op(__k) });
    }
    let envg = if g.n_gates > 0 && g.rng.permille(700) { g.env_gates(2) } else { vec![] };
    let mut prog = base_program(pool_max, n_objs);
    prog.n_streams = 1;
    prog.faults = faults;
    prog.prespawn = g.rng.permille(300);
    prog.phases = vec![Phase { ctl: vec![], threads, env_gates: envg, env_streams: env }];
    finish(prog, &g)
}

pub fn gen_pipe_out(rng: &mut Rng) -> Program {
    let pool_max = rng.range(1, 3) as usize;
    let faults = gen_faults(rng, true);
    let mut g = Gen::new(rng, 1);
    let (o, s, out) = (0, 0, 0);
    // (now and then a long input, so that whatever happens every so many items is reached)
    let n_items = if g.rng.permille(120) { g.rng.range(10, 24) as usize } else { g.rng.range(0, 10) as usize };
    let depth = g.rng.range(1, 5) as usize;
    let prefilled = if g.rng.permille(200) { n_items } else { g.rng.range(0, n_items as u64) as usize };
    let mut t0 = vec![];
    for i in 0..prefilled {
        t0.push({ let __k = OpKind::Push { s, item: 10 + i as u32 }; g.op(__k) });
    }
    t0.push({ let __k = OpKind::Pipe { o, s, depth, out, body: item_body(&mut g), from: None }; g.op(__k) });
    // the consumer: blocking reads and single polls at generated points
    let n_reads = g.rng.range(0, n_items as u64 + 2);
    for _ in 0..n_reads {
        match g.rng.weighted(&[12, 6, 4, 1]) {
            0 => t0.push({ let __k = OpKind::Next { out }; g.op(__k) }),
            1 => t0.push({ let __k = OpKind::PollNext { out }; g.op(__k) }),
            2 => t0.push({ let __k = OpKind::Yield(g.rng.range(1, 3) as u8); g.op(__k) }),
            // the consumer changes the buffer depth in the middle of the stream (possibly while the producer is throttled)
            _ => t0.push({ let __k = OpKind::SetDepth { out, depth: g.rng.range(1, 6) as usize }; g.op(__k) }),
        }
    }
    let mut threads = vec![t0];
    if g.rng.permille(400) {
        let mut t = vec![];
        let n = g.rng.range(1, 3);
        for _ in 0..n {
            match g.rng.below(3) {
                0 => t.push({ let __k = OpKind::Desync { o, body: vec![Step::Yield(1)] }; g.op(__k) }),
                1 => t.push({ let __k = OpKind::Sync { o, body: vec![] }; g.op(__k) }),
                _ => {
                    let h = g.handle();
                    let gate = g.gate();
                    t.push({ let __k = OpKind::FutureDesync { o, body: vec![Step::AwaitGate(gate)], h }; g.op(__k) });
                    if g.rng.permille(500) {
                        t.push({ let __k = OpKind::Detach { h }; g.op(__k) });
                    } else {
                        t.push({ let __k = OpKind::Await { h }; g.op(__k) });
                    }
                }
            }
        }
        threads.push(t);
    }
    let mut env = vec![];
    for i in prefilled..n_items {
        if g.rng.permille(400) {
            let n = g.rng.range(1, 3) as u8;
            env.push({ let __k = OpKind::Yield(n); g.op(__k) });
        }
        env.push({ let __k = OpKind::Push { s, item: 10 + i as u32 }; g.op(__k) });
    }
    if g.rng.permille(700) {
        env.push({ let __k = OpKind::CloseStream { s }; g.op(__k) });
    }
    let envg = if g.n_gates > 0 && g.rng.permille(700) { g.env_gates(2) } else { vec![] };
    let mut prog = base_program(pool_max, 1);
    prog.n_streams = 1;
    prog.n_outs = 1;
    prog.faults = faults;
    prog.prespawn = g.rng.permille(300);
    prog.phases = vec![Phase { ctl: vec![], threads, env_gates: envg, env_streams: env }];
    finish(prog, &g)
}

/// The output stream is dropped while the input stays open and silent.
pub fn gen_pipe_drop(rng: &mut Rng) -> Program {
    let pool_max = rng.range(1, 3) as usize;
    let mut g = Gen::new(rng, 1);
    let (o, s, out) = (0, 0, 0);
    let n_items = g.rng.range(0, 7) as usize;
    let depth = g.rng.range(1, 5) as usize;
    let mut t0 = vec![];
    let prefilled = g.rng.range(0, n_items as u64) as usize;
    for i in 0..prefilled {
        t0.push({ let __k = OpKind::Push { s, item: 10 + i as u32 }; g.op(__k) });
    }
    t0.push({ let __k = OpKind::Pipe { o, s, depth, out, body: item_body(&mut g), from: None }; g.op(__k) });
    let n_reads = g.rng.range(0, 3);
    for _ in 0..n_reads {
        match g.rng.weighted(&[3, 3, 2]) {
            0 => t0.push({ let __k = OpKind::PollNext { out }; g.op(__k) }),
            1 => t0.push({ let __k = OpKind::Yield(g.rng.range(1, 3) as u8); g.op(__k) }),
            _ => {
                if prefilled > 0 {
                    t0.push({ let __k = OpKind::Next { out }; g.op(__k) })
                }
            }
        }
    }
    // all remaining pushes happen before the drop, on the same thread, so the input is silent afterwards
    for i in prefilled..n_items {
        t0.push({ let __k = OpKind::Push { s, item: 10 + i as u32 }; g.op(__k) });
        if g.rng.permille(300) {
            t0.push({ let __k = OpKind::Yield(g.rng.range(1, 3) as u8); g.op(__k) });
        }
    }
    // sometimes the pipe's own strong reference is the only owner left when the output goes
    let sole_owner = g.rng.permille(350);
    if sole_owner {
        t0.push({ let __k = OpKind::DropObj { o }; g.op(__k) });
    }
    t0.push({ let __k = OpKind::DropOut { out }; g.op(__k) });
    let envg = if g.n_gates > 0 { g.env_gates(3) } else { vec![] };
    let mut prog = base_program(pool_max, 1);
    prog.n_streams = 1;
    prog.n_outs = 1;
    prog.prespawn = g.rng.permille(300);
    // (a self-waking input would make the pipe release its temporary owner from inside the object's own job: with the
    // harness's owner gone that could be the last one, a drop from inside the object's own operation, which is excluded)
    prog.faults = Faults { spurious_cv_permille: 0, spurious_park_permille: 0, self_wake_permille: if !sole_owner && g.rng.permille(300) { 300 } else { 0 }, dup_wake_permille: 0, keep_waker_permille: if g.rng.permille(400) { 1000 } else { 0 } };
    prog.phases = vec![Phase { ctl: vec![], threads: vec![t0], env_gates: envg, env_streams: vec![] }];
    finish(prog, &g)
}

/// Two pipes chained: the output stream of the first is the input of the second (a `pipe`, or a `pipe_in`).  Shutting the
/// end of the chain down (dropping its output, or, for `pipe_in`, releasing its target and letting one more item through)
/// drops the first pipe's output from wherever the second pipe happens to be released, and the first pipe then owes its own
/// shutdown: input stream, closure and strong reference released, with the real input silent.
pub fn gen_pipe_chain(rng: &mut Rng) -> Program {
    let pool_max = rng.range(1, 3) as usize;
    let mut g = Gen::new(rng, 2);
    let oa = 0;
    let ob = if g.rng.permille(750) { 1 } else { 0 };
    let (s, s2) = (0, 1);
    let (out_a, out_b) = (0, 1);
    let n_items = g.rng.range(0, 6) as usize;
    let (depth_a, depth_b) = (g.rng.range(1, 4) as usize, g.rng.range(1, 4) as usize);
    let second_is_pipe = g.rng.permille(700);
    let mut t0 = vec![];
    let prefilled = g.rng.range(0, n_items as u64) as usize;
    for i in 0..prefilled {
        t0.push({ let __k = OpKind::Push { s, item: 10 + i as u32 }; g.op(__k) });
    }
    t0.push({ let __k = OpKind::Pipe { o: oa, s, depth: depth_a, out: out_a, body: item_body(&mut g), from: None }; g.op(__k) });
    if g.rng.permille(300) {
        t0.push({ let __k = OpKind::Yield(g.rng.range(1, 3) as u8); g.op(__k) });
    }
    if second_is_pipe {
        t0.push({ let __k = OpKind::Pipe { o: ob, s: s2, depth: depth_b, out: out_b, body: item_body(&mut g), from: Some(out_a) }; g.op(__k) });
    } else {
        t0.push({ let __k = OpKind::PipeIn { o: ob, s: s2, body: item_body(&mut g), from: Some(out_a) }; g.op(__k) });
    }
    let mut reads = 0;
    for _ in 0..g.rng.range(0, 3) {
        match g.rng.weighted(&[3, 3, 2]) {
            0 if second_is_pipe => t0.push({ let __k = OpKind::PollNext { out: out_b }; g.op(__k) }),
            1 => t0.push({ let __k = OpKind::Yield(g.rng.range(1, 3) as u8); g.op(__k) }),
            _ => {
                // (a blocking read only where an item is certain to arrive: no gates in the way, item already pushed)
                if second_is_pipe && reads < prefilled && g.n_gates == 0 {
                    reads += 1;
                    t0.push({ let __k = OpKind::Next { out: out_b }; g.op(__k) })
                }
            }
        }
    }
    // all remaining pushes happen before the shutdown, on the same thread, so the real input is silent afterwards
    let keep_one = !second_is_pipe && prefilled < n_items;
    let upto = if keep_one { n_items - 1 } else { n_items };
    for i in prefilled..upto {
        t0.push({ let __k = OpKind::Push { s, item: 10 + i as u32 }; g.op(__k) });
        if g.rng.permille(300) {
            t0.push({ let __k = OpKind::Yield(g.rng.range(1, 3) as u8); g.op(__k) });
        }
    }
    // sometimes the pipes' own strong references are the only owners left
    let sole_b = ob != oa && g.rng.permille(500);
    let sole_a = g.rng.permille(300);
    if second_is_pipe {
        if sole_b {
            t0.push({ let __k = OpKind::DropObj { o: ob }; g.op(__k) });
        }
        if sole_a && (ob != oa || !sole_b) {
            t0.push({ let __k = OpKind::DropObj { o: oa }; g.op(__k) });
        }
        t0.push({ let __k = OpKind::DropOut { out: out_b }; g.op(__k) });
    } else if ob != oa {
        // pipe_in stops at the first stream event after its target has gone
        t0.push({ let __k = OpKind::DropObj { o: ob }; g.op(__k) });
        if g.rng.permille(300) {
            t0.push({ let __k = OpKind::Yield(g.rng.range(1, 3) as u8); g.op(__k) });
        }
        if keep_one {
            t0.push({ let __k = OpKind::Push { s, item: 10 + (n_items - 1) as u32 }; g.op(__k) });
        }
    }
    let envg = if g.n_gates > 0 { g.env_gates(3) } else { vec![] };
    let mut prog = base_program(pool_max, 2);
    prog.n_streams = 2;
    prog.n_outs = 2;
    prog.prespawn = g.rng.permille(300);
    prog.faults = Faults { spurious_cv_permille: 0, spurious_park_permille: 0, self_wake_permille: 0, dup_wake_permille: 0, keep_waker_permille: if g.rng.permille(300) { 1000 } else { 0 } };
    prog.phases = vec![Phase { ctl: vec![], threads: vec![t0], env_gates: envg, env_streams: vec![] }];
    finish(prog, &g)
}

/// Two pipes chained and run to the end: pipe into pipe (the consumer reads the second output) or pipe into pipe_in.  Every
/// per-stage promise holds for both stages: one output per input in order then the end, items once and in order, a
/// throttled producer resumes after a read, whoever the consumer is (here: another pipe, itself throttled now and then).
pub fn gen_pipe_chain_out(rng: &mut Rng) -> Program {
    let pool_max = rng.range(1, 3) as usize;
    let faults = gen_faults(rng, true);
    let mut g = Gen::new(rng, 2);
    let oa = 0;
    let ob = if g.rng.permille(750) { 1 } else { 0 };
    let (s, s2) = (0, 1);
    let (out_a, out_b) = (0, 1);
    let n_items = if g.rng.permille(120) { g.rng.range(8, 16) as usize } else { g.rng.range(0, 8) as usize };
    let (depth_a, depth_b) = (g.rng.range(1, 4) as usize, g.rng.range(1, 4) as usize);
    let second_is_pipe = g.rng.permille(700);
    let prefilled = if g.rng.permille(200) { n_items } else { g.rng.range(0, n_items as u64) as usize };
    let mut t0 = vec![];
    for i in 0..prefilled {
        t0.push({ let __k = OpKind::Push { s, item: 10 + i as u32 }; g.op(__k) });
    }
    t0.push({ let __k = OpKind::Pipe { o: oa, s, depth: depth_a, out: out_a, body: item_body(&mut g), from: None }; g.op(__k) });
    if g.rng.permille(300) {
        t0.push({ let __k = OpKind::Yield(g.rng.range(1, 3) as u8); g.op(__k) });
    }
    if second_is_pipe {
        t0.push({ let __k = OpKind::Pipe { o: ob, s: s2, depth: depth_b, out: out_b, body: item_body(&mut g), from: Some(out_a) }; g.op(__k) });
        let n_reads = g.rng.range(0, n_items as u64 + 2);
        for _ in 0..n_reads {
            match g.rng.weighted(&[12, 6, 4, 1]) {
                0 => t0.push({ let __k = OpKind::Next { out: out_b }; g.op(__k) }),
                1 => t0.push({ let __k = OpKind::PollNext { out: out_b }; g.op(__k) }),
                2 => t0.push({ let __k = OpKind::Yield(g.rng.range(1, 3) as u8); g.op(__k) }),
                _ => t0.push({ let __k = OpKind::SetDepth { out: out_b, depth: g.rng.range(1, 6) as usize }; g.op(__k) }),
            }
        }
    } else {
        t0.push({ let __k = OpKind::PipeIn { o: ob, s: s2, body: item_body(&mut g), from: Some(out_a) }; g.op(__k) });
    }
    let mut threads = vec![t0];
    if g.rng.permille(300) {
        let mut t = vec![];
        for _ in 0..g.rng.range(1, 3) {
            let o = if g.rng.permille(500) { oa } else { ob };
            match g.rng.below(2) {
                0 => t.push({ let __k = OpKind::Desync { o, body: vec![Step::Yield(1)] }; g.op(__k) }),
                _ => t.push({ let __k = OpKind::Sync { o, body: vec![] }; g.op(__k) }),
            }
        }
        threads.push(t);
    }
    let mut env = vec![];
    for i in prefilled..n_items {
        if g.rng.permille(400) {
            let n = g.rng.range(1, 3) as u8;
            env.push({ let __k = OpKind::Yield(n); g.op(__k) });
        }
        env.push({ let __k = OpKind::Push { s, item: 10 + i as u32 }; g.op(__k) });
    }
    if g.rng.permille(700) {
        env.push({ let __k = OpKind::CloseStream { s }; g.op(__k) });
    }
    let envg = if g.n_gates > 0 && g.rng.permille(700) { g.env_gates(2) } else { vec![] };
    let mut prog = base_program(pool_max, 2);
    prog.n_streams = 2;
    prog.n_outs = 2;
    prog.faults = faults;
    prog.prespawn = g.rng.permille(300);
    prog.phases = vec![Phase { ctl: vec![], threads, env_gates: envg, env_streams: env }];
    finish(prog, &g)
}

// ---- position sweeps --------------------------------------------------------------------------

/// C16: the drop of the output is injected at every scheduling point of whoever polls the input.
pub fn gen_pipe_drop_sweep(rng: &mut Rng) -> Program {
    let pool_max = rng.range(1, 2) as usize;
    let mut g = Gen::new(rng, 1);
    let (o, s, out) = (0, 0, 0);
    let n_items = g.rng.range(0, 4) as usize;
    let depth = g.rng.range(1, 3) as usize;
    let mut t0 = vec![];
    for i in 0..n_items {
        t0.push({ let __k = OpKind::Push { s, item: 10 + i as u32 }; g.op(__k) });
    }
    let mut body = vec![];
    if g.rng.permille(500) {
        body.push(Step::Yield(1));
    }
    if g.rng.permille(400) {
        let gate = g.gate();
        body.push(Step::AwaitGate(gate));
    }
    t0.push({ let __k = OpKind::Pipe { o, s, depth, out, body, from: None }; g.op(__k) });
    let injector = vec![{ let __k = OpKind::SweepWait; g.op(__k) }, { let __k = OpKind::DropOut { out }; g.op(__k) }, { let __k = OpKind::SweepDone; g.op(__k) }];
    let envg = if g.n_gates > 0 && g.rng.permille(500) { vec![{ let __k = OpKind::Yield(2); g.op(__k) }, { let __k = OpKind::OpenGate { g: 0 }; g.op(__k) }] } else { vec![] };
    let mut prog = base_program(pool_max, 1);
    prog.n_streams = 1;
    prog.n_outs = 1;
    prog.mark_on_stream_poll = Some(s);
    prog.faults.keep_waker_permille = if g.rng.permille(400) { 1000 } else { 0 };
    prog.phases = vec![Phase { ctl: vec![], threads: vec![t0, injector], env_gates: envg, env_streams: vec![] }];
    finish(prog, &g)
}

/// C09: `try_sync` lands at every scheduling point of the context that is running (or about to stop running) the object's
/// queue: a pool thread, a caller inside `sync`, a task polling a future.  It must never wait, never run out of order or
/// beside another operation, a `Busy` must leave everything that was queued completing, and the object must accept a
/// `try_sync` once it has gone quiet.
pub fn gen_try_sweep(rng: &mut Rng) -> Program {
    let ctx = rng.below(3);
    let pool_max = if ctx == 0 { rng.range(1, 2) as usize } else { rng.range(0, 1) as usize };
    let mut g = Gen::new(rng, 1);
    let o = 0;
    let mut t0 = vec![];
    let mut envg = vec![];
    match ctx {
        0 => {
            t0.push({ let __k = OpKind::Desync { o, body: vec![Step::Mark, Step::Yield(1)] }; g.op(__k) });
            for _ in 0..g.rng.range(0, 2) {
                t0.push({ let __k = OpKind::Desync { o, body: vec![] }; g.op(__k) });
            }
        }
        1 => {
            if g.rng.permille(600) {
                t0.push({ let __k = OpKind::Desync { o, body: vec![Step::Yield(1)] }; g.op(__k) });
            }
            t0.push({ let __k = OpKind::Mark; g.op(__k) });
            t0.push({ let __k = OpKind::Sync { o, body: if g.rng.permille(500) { vec![Step::Yield(1)] } else { vec![] } }; g.op(__k) });
            if g.rng.permille(400) {
                t0.push({ let __k = OpKind::Desync { o, body: vec![] }; g.op(__k) });
            }
        }
        _ => {
            let h = g.handle();
            let gate = g.gate();
            t0.push({ let __k = OpKind::FutureDesync { o, body: vec![Step::Mark, Step::AwaitGate(gate), Step::Yield(1)], h }; g.op(__k) });
            if g.rng.permille(400) {
                t0.push({ let __k = OpKind::Desync { o, body: vec![] }; g.op(__k) });
            }
            t0.push({ let __k = OpKind::Await { h }; g.op(__k) });
            envg.push({ let __k = OpKind::Yield(g.rng.range(1, 4) as u8); g.op(__k) });
            envg.push({ let __k = OpKind::OpenGate { g: gate }; g.op(__k) });
        }
    }
    let mut inj = vec![{ let __k = OpKind::SweepWait; g.op(__k) }, { let __k = OpKind::TrySync { o, body: if g.rng.permille(300) { vec![Step::Yield(1)] } else { vec![] } }; g.op(__k) }, { let __k = OpKind::SweepDone; g.op(__k) }];
    for _ in 0..g.rng.range(0, 2) {
        inj.push({ let __k = OpKind::Yield(g.rng.range(1, 3) as u8); g.op(__k) });
        inj.push({ let __k = OpKind::TrySync { o, body: vec![] }; g.op(__k) });
    }
    let mut prog = base_program(pool_max, 1);
    prog.faults = Faults { spurious_cv_permille: 0, spurious_park_permille: if g.rng.permille(300) { 100 } else { 0 }, self_wake_permille: 0, dup_wake_permille: 0, keep_waker_permille: 0 };
    prog.phases = vec![Phase { ctl: vec![], threads: vec![t0, inj], env_gates: envg, env_streams: vec![] }];
    finish(prog, &g)
}

/// C13: the resumer is used (or dropped) at every scheduling point of the context that holds the suspension: a pool
/// thread, or a caller inside `sync` that took the suspended queue over because every pool thread is stalled elsewhere.
pub fn gen_resume_sweep(rng: &mut Rng) -> Program {
    let pool_max = rng.range(1, 2) as usize;
    // 0: a pool thread runs the suspension, 1: every pool thread is stalled, a sync caller runs it
    let ctx = rng.below(2);
    let n_objs = 1 + if ctx == 1 { pool_max } else { 0 };
    let mut g = Gen::new(rng, n_objs);
    let o = 0;
    let mut threads: Vec<Vec<Op>> = vec![];
    let mut inj = vec![];
    let mut victim = vec![];
    if ctx == 1 {
        let mut blockers = vec![];
        for i in 0..pool_max {
            let st = g.n_gates;
            let gate = g.n_gates + 1;
            g.n_gates += 2;
            blockers.push({ let __k = OpKind::Desync { o: 1 + i, body: vec![Step::OpenGate(st), Step::BlockOn(gate)] }; g.op(__k) });
            inj.push({ let __k = OpKind::WaitGate { g: st }; g.op(__k) });
        }
        threads.push(blockers);
    }
    let ready = g.n_gates;
    g.n_gates += 1;
    let h = g.handle();
    if ctx == 0 {
        // the pool thread that runs this goes on to the suspension behind it
        inj.push({ let __k = OpKind::Desync { o, body: vec![Step::Mark, Step::Yield(1)] }; g.op(__k) });
    } else if g.rng.permille(400) {
        inj.push({ let __k = OpKind::Desync { o, body: vec![Step::Yield(1)] }; g.op(__k) });
    }
    // (ctx 1: the pool is stalled, so the request stays queued until the victim's sync drains the queue into it: the victim
    // then holds the suspension, parked inside its own call)
    inj.push({ let __k = OpKind::Suspend { o, h }; g.op(__k) });
    inj.push({ let __k = OpKind::OpenGate { g: ready }; g.op(__k) });
    inj.push({ let __k = OpKind::SweepWait; g.op(__k) });
    // the resumer is obtained inside the injection (at once if the suspension has been reached, else as soon as it is)
    inj.push({ let __k = OpKind::Await { h }; g.op(__k) });
    inj.push({ let __k = if g.rng.permille(700) { OpKind::Resume { h } } else { OpKind::DropResumer { h } }; g.op(__k) });
    inj.push({ let __k = OpKind::SweepDone; g.op(__k) });
    // calls made during the suspension: they wait, and complete in order after it
    victim.push({ let __k = OpKind::WaitGate { g: ready }; g.op(__k) });
    if ctx == 1 {
        victim.push({ let __k = OpKind::Mark; g.op(__k) });
    }
    for _ in 0..g.rng.range(1, 3) {
        match g.rng.weighted(&[5, 2, 1]) {
            0 => victim.push({ let __k = OpKind::Sync { o, body: vec![] }; g.op(__k) }),
            1 => victim.push({ let __k = OpKind::Desync { o, body: vec![] }; g.op(__k) }),
            _ => victim.push({ let __k = OpKind::TrySync { o, body: vec![] }; g.op(__k) }),
        }
    }
    if ctx == 1 && !victim.iter().any(|op| matches!(op.k, OpKind::Sync { .. })) {
        victim.push({ let __k = OpKind::Sync { o, body: vec![] }; g.op(__k) });
    }
    threads.push(inj);
    threads.push(victim);
    let mut prog = base_program(pool_max, n_objs);
    prog.phases = vec![Phase { ctl: vec![], threads, env_gates: vec![], env_streams: vec![] }];
    prog.faults = Faults { spurious_cv_permille: if g.rng.permille(300) { 100 } else { 0 }, spurious_park_permille: if g.rng.permille(300) { 100 } else { 0 }, self_wake_permille: 0, dup_wake_permille: 0, keep_waker_permille: 0 };
    finish(prog, &g)
}

/// C12: a read by the consumer (the back-pressure release) is injected at every scheduling point of the context that polls the
/// input, while items arrive one at a time so that the producer is throttled at the start of a job again and again.
pub fn gen_pipe_read_sweep(rng: &mut Rng) -> Program {
    let pool_max = rng.range(1, 2) as usize;
    let mut g = Gen::new(rng, 1);
    let (o, s, out) = (0, 0, 0);
    let depth = g.rng.range(1, 2) as usize;
    let n_pre = g.rng.range(0, depth as u64 + 1) as usize;
    let n_late = g.rng.range(1, 3) as usize;
    let mut t0 = vec![];
    for i in 0..n_pre {
        t0.push({ let __k = OpKind::Push { s, item: 10 + i as u32 }; g.op(__k) });
    }
    let mut body = vec![];
    if g.rng.permille(400) {
        body.push(Step::Yield(1));
    }
    t0.push({ let __k = OpKind::Pipe { o, s, depth, out, body, from: None }; g.op(__k) });
    let mut injector = vec![{ let __k = OpKind::SweepWait; g.op(__k) }, { let __k = OpKind::PollNext { out }; g.op(__k) }, { let __k = OpKind::SweepDone; g.op(__k) }];
    for _ in 0..g.rng.range(0, 2) {
        injector.push({ let __k = OpKind::Yield(g.rng.range(1, 3) as u8); g.op(__k) });
        injector.push({ let __k = OpKind::PollNext { out }; g.op(__k) });
    }
    let mut env = vec![];
    for i in 0..n_late {
        env.push({ let __k = OpKind::Yield(g.rng.range(1, 3) as u8); g.op(__k) });
        env.push({ let __k = OpKind::Push { s, item: 10 + (n_pre + i) as u32 }; g.op(__k) });
    }
    let mut prog = base_program(pool_max, 1);
    prog.n_streams = 1;
    prog.n_outs = 1;
    prog.mark_on_stream_poll = Some(s);
    prog.prespawn = g.rng.permille(300);
    prog.faults.keep_waker_permille = if g.rng.permille(300) { 1000 } else { 0 };
    prog.phases = vec![Phase { ctl: vec![], threads: vec![t0, injector], env_gates: vec![], env_streams: env }];
    finish(prog, &g)
}

/// C11: the last owner of the target is released at every scheduling point of the thread that *notifies* the input
/// (the pipe upgrades its weak reference there for a moment), while every pool thread is stalled: whatever the pipe does
/// with an owner it finds itself holding must not depend on the pool.
pub fn gen_pipe_in_wake_drop_sweep(rng: &mut Rng) -> Program {
    let pool_max = rng.range(1, 2) as usize;
    let mut g = Gen::new(rng, 1 + pool_max);
    let (o, s) = (0, 0);
    let mut t0 = vec![];
    let mut tb = vec![];
    for i in 0..pool_max {
        let started = g.n_gates;
        let gate = g.n_gates + 1;
        g.n_gates += 2;
        tb.push({ let __k = OpKind::Desync { o: 1 + i, body: vec![Step::OpenGate(started), Step::BlockOn(gate)] }; g.op(__k) });
        t0.push({ let __k = OpKind::WaitGate { g: started }; g.op(__k) });
    }
    let ready = g.n_gates;
    g.n_gates += 1;
    let n_pre = g.rng.range(0, 2) as usize;
    for i in 0..n_pre {
        t0.push({ let __k = OpKind::Push { s, item: 10 + i as u32 }; g.op(__k) });
    }
    let mut body = vec![];
    if g.rng.permille(300) {
        body.push(Step::Yield(1));
    }
    t0.push({ let __k = OpKind::PipeIn { o, s, body, from: None }; g.op(__k) });
    t0.push({ let __k = OpKind::OpenGate { g: ready }; g.op(__k) });
    let injector = vec![{ let __k = OpKind::SweepWait; g.op(__k) }, { let __k = OpKind::DropObj { o }; g.op(__k) }, { let __k = OpKind::SweepDone; g.op(__k) }];
    let mut env = vec![{ let __k = OpKind::WaitGate { g: ready }; g.op(__k) }, { let __k = OpKind::Mark; g.op(__k) }];
    let n_post = g.rng.range(1, 3) as usize;
    for i in 0..n_post {
        env.push({ let __k = OpKind::Push { s, item: 20 + i as u32 }; g.op(__k) });
    }
    let mut prog = base_program(pool_max, 1 + pool_max);
    prog.n_streams = 1;
    prog.prespawn = g.rng.permille(300);
    prog.phases = vec![Phase { ctl: vec![], threads: vec![tb, t0, injector], env_gates: vec![], env_streams: env }];
    finish(prog, &g)
}

/// C07 / C08: every pool thread is inside a job that awaits a future of another, untouched object.  Nobody else can run
/// those objects' queues: the polling (pool) thread has to, or everything deadlocks.
pub fn gen_nested_saturated(rng: &mut Rng) -> Program {
    let pool_max = rng.range(1, 3) as usize;
    let n_objs = pool_max * 2 + rng.below(2) as usize;
    let mut g = Gen::new(rng, n_objs);
    let mut threads = vec![];
    for i in 0..pool_max {
        let inner_o = pool_max + i;
        let mut inner_body = vec![];
        if g.rng.permille(400) {
            inner_body.push(Step::Yield(1));
        }
        if g.rng.permille(250) {
            let gate = g.gate();
            inner_body.push(Step::AwaitGate(gate));
        }
        let inner = {
            let k = if g.rng.permille(500) {
                OpKind::FutureSync { o: inner_o, body: inner_body, h: usize::MAX }
            } else {
                OpKind::FutureDesync { o: inner_o, body: inner_body, h: usize::MAX }
            };
            g.op(k)
        };
        let mut body = vec![];
        if g.rng.permille(300) {
            body.push(Step::Yield(1));
        }
        // sometimes work is already queued on the inner object (scheduled from inside the job, so only this thread knows about it)
        if g.rng.permille(300) {
            let pre = { let __k = OpKind::Desync { o: inner_o, body: vec![] }; g.op(__k) };
            body.push(Step::Nested(Box::new(pre)));
        }
        body.push(Step::Nested(Box::new(inner)));
        let h = g.handle();
        let mut t = vec![{ let __k = OpKind::FutureDesync { o: i, body, h }; g.op(__k) }];
        t.push(match g.rng.below(3) {
            0 => { let __k = OpKind::Detach { h }; g.op(__k) }
            1 => { let __k = OpKind::Yield(2); g.op(__k) }
            _ => { let __k = OpKind::Yield(1); g.op(__k) }
        });
        threads.push(t);
    }
    // an ordinary caller as well, now and then
    if n_objs > pool_max * 2 && g.rng.permille(500) {
        let o = pool_max * 2;
        let h = g.handle();
        threads.push(vec![{ let __k = OpKind::FutureSync { o, body: vec![], h }; g.op(__k) }, { let __k = OpKind::Await { h }; g.op(__k) }]);
    }
    let envg = if g.n_gates > 0 { g.env_gates(2) } else { vec![] };
    let mut prog = base_program(pool_max, n_objs);
    prog.prespawn = g.rng.permille(300);
    prog.phases = vec![Phase { ctl: vec![], threads, env_gates: envg, env_streams: vec![] }];
    finish(prog, &g)
}

/// C11: the last owner of the target is released at every scheduling point of the context that polls the input,
/// through bursts long enough to reach whatever the pipe does per batch of items.
pub fn gen_pipe_in_drop_sweep(rng: &mut Rng) -> Program {
    // (mostly one pool thread: the context that polls the input first is then the one that polls it every time)
    let pool_max = if rng.permille(700) { 1 } else { 2 };
    let mut g = Gen::new(rng, 1);
    let (o, s) = (0, 0);
    let n_items = if g.rng.permille(500) { g.rng.range(8, 14) as usize } else { g.rng.range(0, 8) as usize };
    let mut t0 = vec![];
    // either the burst is there before the pipe exists (the caller of pipe_in may then still hold its own owner while the
    // first items are processed), or it arrives after pipe_in has returned and the caller's owner is gone
    let burst_first = g.rng.permille(400);
    if burst_first {
        for i in 0..n_items {
            t0.push({ let __k = OpKind::Push { s, item: 10 + i as u32 }; g.op(__k) });
        }
    }
    let mut body = vec![];
    if g.rng.permille(300) {
        body.push(Step::Yield(1));
    }
    t0.push({ let __k = OpKind::PipeIn { o, s, body, from: None }; g.op(__k) });
    if !burst_first {
        for i in 0..n_items {
            t0.push({ let __k = OpKind::Push { s, item: 10 + i as u32 }; g.op(__k) });
        }
    }
    let injector = vec![{ let __k = OpKind::SweepWait; g.op(__k) }, { let __k = OpKind::DropObj { o }; g.op(__k) }, { let __k = OpKind::SweepDone; g.op(__k) }];
    let mut env = vec![];
    if g.rng.permille(500) {
        env.push({ let __k = OpKind::Yield(g.rng.range(1, 4) as u8); g.op(__k) });
        env.push({ let __k = OpKind::Push { s, item: 10 + n_items as u32 }; g.op(__k) });
    }
    let mut prog = base_program(pool_max, 1);
    prog.n_streams = 1;
    prog.mark_on_stream_poll = Some(s);
    prog.prespawn = g.rng.permille(300);
    prog.phases = vec![Phase { ctl: vec![], threads: vec![t0, injector], env_gates: vec![], env_streams: env }];
    finish(prog, &g)
}

/// C06: the wake-up is injected at every scheduling point of the context that suspends the operation.
pub fn gen_wake_sweep(rng: &mut Rng) -> Program {
    // runner context: 0 = pool thread, 1 = thread inside sync (no pool), 2 = polling task (no pool)
    let ctx = rng.below(3);
    let pool_max = if ctx == 0 { rng.range(1, 2) as usize } else { 0 };
    let mut g = Gen::new(rng, 1);
    let o = 0;
    let gate = 0;
    g.n_gates = 1;
    let h = g.handle();
    let mut body = vec![Step::Mark];
    if g.rng.permille(400) {
        body.push(Step::Yield(1));
    }
    body.push(Step::AwaitGate(gate));
    if g.rng.permille(400) {
        body.push(Step::Yield(1));
    }
    let mut t0 = vec![];
    t0.push({ let __k = OpKind::FutureDesync { o, body, h }; g.op(__k) });
    // a marker operation queued behind it
    t0.push({ let __k = OpKind::Desync { o, body: vec![] }; g.op(__k) });
    match ctx {
        0 => {
            let k = if g.rng.permille(500) { OpKind::Detach { h } } else { OpKind::Await { h } };
            t0.push({ let __k = k; g.op(__k) });
        }
        1 => {
            t0.push({ let __k = OpKind::Detach { h }; g.op(__k) });
            t0.push({ let __k = OpKind::Sync { o, body: vec![] }; g.op(__k) });
        }
        _ => t0.push({ let __k = OpKind::Await { h }; g.op(__k) }),
    }
    let mut inj = vec![{ let __k = OpKind::SweepWait; g.op(__k) }];
    // with and without stale / duplicate wakes around the real one
    if g.rng.permille(300) {
        inj.push({ let __k = OpKind::Poke { g: gate }; g.op(__k) });
    }
    inj.push({ let __k = OpKind::OpenGate { g: gate }; g.op(__k) });
    if g.rng.permille(300) {
        inj.push({ let __k = OpKind::WakeStale { g: gate }; g.op(__k) });
    }
    inj.push({ let __k = OpKind::SweepDone; g.op(__k) });
    let mut prog = base_program(pool_max, 1);
    prog.faults = Faults { spurious_cv_permille: 0, spurious_park_permille: if g.rng.permille(300) { 100 } else { 0 }, self_wake_permille: if g.rng.permille(300) { 300 } else { 0 }, dup_wake_permille: if g.rng.permille(300) { 300 } else { 0 }, keep_waker_permille: 0 };
    prog.phases = vec![Phase { ctl: vec![], threads: vec![t0, inj], env_gates: vec![], env_streams: vec![] }];
    finish(prog, &g)
}

/// C05: the thread that releases the last owner runs the queue itself (no pool thread); the wake-up of the suspended
/// operation it has to wait for is injected at every one of its scheduling points.
pub fn gen_drop_wake_sweep(rng: &mut Rng) -> Program {
    let mut g = Gen::new(rng, 1);
    let o = 0;
    let gate = 0;
    g.n_gates = 1;
    let h = g.handle();
    let mut body = vec![Step::Mark];
    if g.rng.permille(400) {
        body.push(Step::Yield(1));
    }
    body.push(Step::AwaitGate(gate));
    if g.rng.permille(400) {
        body.push(Step::Yield(1));
    }
    let mut t0 = vec![];
    t0.push({ let __k = OpKind::FutureDesync { o, body, h }; g.op(__k) });
    if g.rng.permille(500) {
        t0.push({ let __k = OpKind::Desync { o, body: vec![] }; g.op(__k) });
    }
    t0.push({ let __k = OpKind::Detach { h }; g.op(__k) });
    t0.push({ let __k = OpKind::DropObj { o }; g.op(__k) });
    let mut inj = vec![{ let __k = OpKind::SweepWait; g.op(__k) }];
    if g.rng.permille(300) {
        inj.push({ let __k = OpKind::Poke { g: gate }; g.op(__k) });
    }
    inj.push({ let __k = OpKind::OpenGate { g: gate }; g.op(__k) });
    inj.push({ let __k = OpKind::SweepDone; g.op(__k) });
    let mut prog = base_program(0, 1);
    prog.faults = Faults { spurious_cv_permille: 0, spurious_park_permille: if g.rng.permille(300) { 100 } else { 0 }, self_wake_permille: 0, dup_wake_permille: if g.rng.permille(300) { 300 } else { 0 }, keep_waker_permille: 0 };
    prog.phases = vec![Phase { ctl: vec![], threads: vec![t0, inj], env_gates: vec![], env_streams: vec![] }];
    finish(prog, &g)
}

/// C08: the drop of a future_sync future (by its owner) is injected at every scheduling point of the
/// context that runs the queue towards, into and past the future's slot.
pub fn gen_fsync_drop_sweep(rng: &mut Rng) -> Program {
    let pool_max = rng.range(1, 2) as usize;
    let mut g = Gen::new(rng, 1);
    let o = 0;
    let h = g.handle();
    let mut t0 = vec![];
    // the operation ahead of the slot marks the runner as the sweep victim
    let mut ahead = vec![Step::Mark];
    if g.rng.permille(600) {
        ahead.push(Step::Yield(g.rng.range(1, 2) as u8));
    }
    t0.push({ let __k = OpKind::Desync { o, body: ahead }; g.op(__k) });
    let mut body = vec![];
    if g.rng.permille(600) {
        body.push(Step::Yield(1));
    }
    if g.rng.permille(600) {
        let gate = g.gate();
        body.push(Step::AwaitGate(gate));
    }
    t0.push({ let __k = OpKind::FutureSync { o, body, h }; g.op(__k) });
    // marker operations behind the slot
    t0.push({ let __k = OpKind::Desync { o, body: vec![] }; g.op(__k) });
    let h2 = g.handle();
    t0.push({ let __k = OpKind::FutureDesync { o, body: vec![Step::Yield(1)], h: h2 }; g.op(__k) });
    t0.push({ let __k = OpKind::Detach { h: h2 }; g.op(__k) });
    // the owner polls 0..3 times, then drops the future when the runner reaches the swept position
    for _ in 0..g.rng.range(0, 3) {
        t0.push({ let __k = OpKind::PollOnce { h }; g.op(__k) });
        if g.rng.permille(400) {
            t0.push({ let __k = OpKind::Yield(1); g.op(__k) });
        }
    }
    t0.push({ let __k = OpKind::SweepWait; g.op(__k) });
    t0.push({ let __k = OpKind::DropHandle { h }; g.op(__k) });
    t0.push({ let __k = OpKind::SweepDone; g.op(__k) });
    let envg = if g.n_gates > 0 && g.rng.permille(600) { g.env_gates(2) } else { vec![] };
    let mut prog = base_program(pool_max, 1);
    prog.phases = vec![Phase { ctl: vec![], threads: vec![t0], env_gates: envg, env_streams: vec![] }];
    prog.prespawn = g.rng.permille(300);
    finish(prog, &g)
}

/// C05: the drop of the last owner is injected at every scheduling point of the context running a job.
pub fn gen_drop_sweep(rng: &mut Rng) -> Program {
    let pool_max = rng.range(0, 2) as usize;
    let mut g = Gen::new(rng, 1);
    let o = 0;
    let mut t0 = vec![];
    let mut first = true;
    let n = g.rng.range(1, 3);
    for _ in 0..n {
        let mut body = vec![];
        if first {
            body.push(Step::Mark);
        }
        first = false;
        match g.rng.below(3) {
            0 => {
                body.push(Step::Yield(g.rng.range(1, 2) as u8));
                t0.push({ let __k = OpKind::Desync { o, body }; g.op(__k) });
            }
            1 => {
                let h = g.handle();
                let gate = g.gate();
                body.push(Step::AwaitGate(gate));
                body.push(Step::Yield(1));
                t0.push({ let __k = OpKind::FutureDesync { o, body, h }; g.op(__k) });
                t0.push({ let __k = OpKind::Detach { h }; g.op(__k) });
            }
            _ => {
                let h = g.handle();
                body.push(Step::Yield(1));
                t0.push({ let __k = OpKind::FutureDesync { o, body, h }; g.op(__k) });
                t0.push({ let __k = OpKind::Detach { h }; g.op(__k) });
            }
        }
    }
    if pool_max == 0 {
        // somebody has to run the queue: the dropper's own final sync does
    }
    let inj = vec![{ let __k = OpKind::SweepWait; g.op(__k) }, { let __k = OpKind::DropObj { o }; g.op(__k) }, { let __k = OpKind::SweepDone; g.op(__k) }];
    let envg = if g.n_gates > 0 { g.env_gates(2) } else { vec![] };
    let mut prog = base_program(pool_max, 1);
    prog.phases = vec![Phase { ctl: vec![], threads: vec![t0, inj], env_gates: envg, env_streams: vec![] }];
    prog.prespawn = pool_max > 0 && g.rng.permille(300);
    finish(prog, &g)
}

/// C13 with no free pool thread: every pool thread is stalled, one context suspends the queue, obtains the resumer
/// and resumes, another calls sync (and more) during the suspension; whoever is there has to run the queue.
pub fn gen_suspend_saturated(rng: &mut Rng) -> Program {
    let pool_max = rng.range(1, 2) as usize;
    let n_objs = pool_max + 1;
    let mut g = Gen::new(rng, n_objs);
    let o = 0;
    let mut blockers = vec![];
    let mut started = vec![];
    for i in 0..pool_max {
        let st = g.n_gates;
        let gate = g.n_gates + 1;
        g.n_gates += 2;
        started.push(st);
        blockers.push({ let __k = OpKind::Desync { o: 1 + i, body: vec![Step::OpenGate(st), Step::BlockOn(gate)] }; g.op(__k) });
    }
    let mut r = vec![];
    let mut s_thread = vec![];
    for st in &started {
        r.push({ let __k = OpKind::WaitGate { g: *st }; g.op(__k) });
        s_thread.push({ let __k = OpKind::WaitGate { g: *st }; g.op(__k) });
    }
    if g.rng.permille(400) {
        r.push({ let __k = OpKind::Desync { o, body: vec![Step::Yield(1)] }; g.op(__k) });
    }
    let h = g.handle();
    r.push({ let __k = OpKind::Suspend { o, h }; g.op(__k) });
    r.push({ let __k = OpKind::Await { h }; g.op(__k) });
    let y = g.rng.range(0, 4) as u8;
    if y > 0 {
        r.push({ let __k = OpKind::Yield(y); g.op(__k) });
    }
    r.push({ let __k = if g.rng.permille(700) { OpKind::Resume { h } } else { OpKind::DropResumer { h } }; g.op(__k) });
    let y = g.rng.range(0, 5) as u8;
    if y > 0 {
        s_thread.push({ let __k = OpKind::Yield(y); g.op(__k) });
    }
    let n = g.rng.range(1, 3);
    for _ in 0..n {
        match g.rng.weighted(&[5, 2, 1]) {
            0 => s_thread.push({ let __k = OpKind::Sync { o, body: vec![] }; g.op(__k) }),
            1 => s_thread.push({ let __k = OpKind::Desync { o, body: vec![] }; g.op(__k) }),
            _ => s_thread.push({ let __k = OpKind::TrySync { o, body: vec![] }; g.op(__k) }),
        }
    }
    let mut threads = vec![blockers, r, s_thread];
    if g.rng.permille(300) {
        threads.push(vec![{ let __k = OpKind::Yield(2); g.op(__k) }, { let __k = OpKind::Sync { o, body: vec![] }; g.op(__k) }]);
    }
    let mut prog = base_program(pool_max, n_objs);
    prog.phases = vec![Phase { ctl: vec![], threads, env_gates: vec![], env_streams: vec![] }];
    prog.faults = Faults { spurious_cv_permille: if g.rng.permille(300) { 100 } else { 0 }, spurious_park_permille: if g.rng.permille(300) { 100 } else { 0 }, self_wake_permille: 0, dup_wake_permille: 0, keep_waker_permille: 0 };
    finish(prog, &g)
}
