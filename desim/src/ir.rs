//! Program IR: explicit, serialisable, shrinkable data.  Any subset of the operations of a
//! well-formed program is again executable (missing handles / objects turn uses into no-ops),
//! which is what makes delta-debugging of failing programs simple.

use serde::{Deserialize, Serialize};

pub type ObjId = usize;
pub type GateId = usize;
pub type StreamId = usize;
pub type HandleId = usize;
pub type OutId = usize;

#[derive(Clone, Debug, Serialize, Deserialize, PartialEq)]
pub enum Step {
    /// n scheduling points while the operation is inside the object
    Yield(u8),
    /// (future bodies) await an external one-shot event
    AwaitGate(GateId),
    /// (future bodies) await whichever of two events fires first; the loser keeps the waker it was given
    AwaitAny(GateId, GateId),
    /// block the running thread until the gate opens (a stalled job)
    BlockOn(GateId),
    OpenGate(GateId),
    /// run another operation from inside this one (only on higher-numbered objects)
    Nested(Box<Op>),
    /// release the harness's owner of another (higher-numbered) object from inside this job
    DropObj(ObjId),
    Panic,
    Push(StreamId, u32),
    CloseStream(StreamId),
    /// position-sweep marker: the running context becomes the victim
    Mark,
    /// (future bodies) the future wakes its own waker in the middle of a poll
    WakeSelf,
}

#[derive(Clone, Debug, Serialize, Deserialize, PartialEq)]
pub enum OpKind {
    Desync { o: ObjId, body: Vec<Step> },
    Sync { o: ObjId, body: Vec<Step> },
    TrySync { o: ObjId, body: Vec<Step> },
    FutureDesync { o: ObjId, body: Vec<Step>, h: HandleId },
    After { o: ObjId, gate: GateId, body: Vec<Step>, h: HandleId },
    FutureSync { o: ObjId, body: Vec<Step>, h: HandleId },
    /// poll to completion, parking between polls
    Await { h: HandleId },
    PollOnce { h: HandleId },
    DropHandle { h: HandleId },
    Detach { h: HandleId },
    /// SchedulerFuture::sync()
    SyncWait { h: HandleId },
    Suspend { o: ObjId, h: HandleId },
    Resume { h: HandleId },
    DropResumer { h: HandleId },
    /// `from`: the input is the output stream of an earlier pipe (a chain); `s` then names the virtual stream that records what that output yields
    PipeIn { o: ObjId, s: StreamId, body: Vec<Step>, #[serde(default)] from: Option<OutId> },
    Pipe { o: ObjId, s: StreamId, depth: usize, out: OutId, body: Vec<Step>, #[serde(default)] from: Option<OutId> },
    Next { out: OutId },
    PollNext { out: OutId },
    DropOut { out: OutId },
    /// PipeStream::set_backpressure_depth() called by the consumer in the middle of the stream
    SetDepth { out: OutId, depth: usize },
    DropObj { o: ObjId },
    OpenGate { g: GateId },
    /// wake the gate's current wakers without opening it (spurious wake)
    Poke { g: GateId },
    /// wake wakers left over from earlier polls
    WakeStale { g: GateId },
    Push { s: StreamId, item: u32 },
    CloseStream { s: StreamId },
    Yield(u8),
    /// injector bracket for position sweeps
    SweepWait,
    SweepDone,
    /// the calling thread becomes the sweep victim
    Mark,
    /// block the calling thread until the gate opens
    WaitGate { g: GateId },
    /// release the harness's owner of the object while the calling thread is unwinding from a panic of its own
    DropObjPanicking { o: ObjId },
    /// despawn_threads_if_overloaded() called from a caller thread while the pool may be busy
    Despawn,
}

#[derive(Clone, Debug, Serialize, Deserialize, PartialEq)]
pub struct Op {
    pub id: u32,
    pub k: OpKind,
}

#[derive(Clone, Debug, Serialize, Deserialize, PartialEq)]
pub enum CtlOp {
    /// change the limit without eager spawning (hook)
    SetMaxLazy(usize),
    /// public API: sets the limit and spawns up to it
    SetMaxEager(usize),
    SpawnExtra,
    Despawn,
}

#[derive(Clone, Debug, Serialize, Deserialize, PartialEq, Default)]
pub struct Phase {
    pub ctl: Vec<CtlOp>,
    pub threads: Vec<Vec<Op>>,
    /// environment thread owning gates (Open / Poke / WakeStale / Yield)
    pub env_gates: Vec<Op>,
    /// environment thread owning streams (Push / CloseStream / Yield)
    pub env_streams: Vec<Op>,
}

#[derive(Clone, Debug, Serialize, Deserialize, PartialEq, Default)]
pub struct Faults {
    pub spurious_cv_permille: u32,
    pub spurious_park_permille: u32,
    /// gate / stream poll wakes its own waker before returning Pending
    pub self_wake_permille: u32,
    /// gate open / stream push calls each waker twice
    pub dup_wake_permille: u32,
    /// an input stream keeps the waker of a poll that returned an item (like a merged stream whose other arm is silent)
    #[serde(default)]
    pub keep_waker_permille: u32,
}

#[derive(Clone, Debug, Serialize, Deserialize, PartialEq)]
pub struct Program {
    pub pool_max: usize,
    pub prespawn: bool,
    pub n_objs: usize,
    pub n_gates: usize,
    pub n_streams: usize,
    pub n_handles: usize,
    pub n_outs: usize,
    pub phases: Vec<Phase>,
    pub faults: Faults,
    /// gates that the generator promises to leave closed until faults stop (C10)
    #[serde(default)]
    pub blocking_gates: Vec<GateId>,
    /// objects whose operations may wait on blocking gates (C10)
    #[serde(default)]
    pub blocked_objs: Vec<ObjId>,
    /// operations that must all be running at the same time at the first quiescence of their phase (C15 capacity)
    #[serde(default)]
    pub capacity_probe: Vec<u32>,
    /// the task that first polls this stream becomes the sweep victim (C16)
    #[serde(default)]
    pub mark_on_stream_poll: Option<StreamId>,
    /// objects that are bare job queues used through the scheduler-level functions (no Desync, nobody waits for the queue when its last handle goes)
    #[serde(default)]
    pub raw_objs: Vec<ObjId>,
}

impl Program {
    pub fn empty(pool_max: usize) -> Program {
        Program {
            pool_max,
            prespawn: false,
            n_objs: 0,
            n_gates: 0,
            n_streams: 0,
            n_handles: 0,
            n_outs: 0,
            phases: vec![Phase::default()],
            faults: Faults::default(),
            blocking_gates: vec![],
            blocked_objs: vec![],
            capacity_probe: vec![],
            mark_on_stream_poll: None,
            raw_objs: vec![],
        }
    }

    pub fn for_each_op<'a>(&'a self, f: &mut dyn FnMut(&'a Op)) {
        fn walk<'a>(op: &'a Op, f: &mut dyn FnMut(&'a Op)) {
            f(op);
            if let Some(b) = op.body() {
                for s in b {
                    if let Step::Nested(n) = s {
                        walk(n, f);
                    }
                }
            }
        }
        for ph in &self.phases {
            for t in &ph.threads {
                for op in t {
                    walk(op, f);
                }
            }
            for op in ph.env_gates.iter().chain(ph.env_streams.iter()) {
                walk(op, f);
            }
        }
    }

    pub fn max_op_id(&self) -> u32 {
        let mut m = 0;
        self.for_each_op(&mut |op| m = m.max(op.id));
        m
    }

    pub fn op_count(&self) -> usize {
        let mut n = 0;
        self.for_each_op(&mut |_| n += 1);
        n
    }

    pub fn thread_count(&self) -> usize {
        self.phases.iter().map(|p| p.threads.len()).max().unwrap_or(0)
    }
}

impl Op {
    pub fn body(&self) -> Option<&Vec<Step>> {
        match &self.k {
            OpKind::Desync { body, .. }
            | OpKind::Sync { body, .. }
            | OpKind::TrySync { body, .. }
            | OpKind::FutureDesync { body, .. }
            | OpKind::After { body, .. }
            | OpKind::FutureSync { body, .. }
            | OpKind::PipeIn { body, .. }
            | OpKind::Pipe { body, .. } => Some(body),
            _ => None,
        }
    }
    pub fn body_mut(&mut self) -> Option<&mut Vec<Step>> {
        match &mut self.k {
            OpKind::Desync { body, .. }
            | OpKind::Sync { body, .. }
            | OpKind::TrySync { body, .. }
            | OpKind::FutureDesync { body, .. }
            | OpKind::After { body, .. }
            | OpKind::FutureSync { body, .. }
            | OpKind::PipeIn { body, .. }
            | OpKind::Pipe { body, .. } => Some(body),
            _ => None,
        }
    }
    pub fn obj(&self) -> Option<ObjId> {
        match &self.k {
            OpKind::Desync { o, .. }
            | OpKind::Sync { o, .. }
            | OpKind::TrySync { o, .. }
            | OpKind::FutureDesync { o, .. }
            | OpKind::After { o, .. }
            | OpKind::FutureSync { o, .. }
            | OpKind::Suspend { o, .. }
            | OpKind::PipeIn { o, .. }
            | OpKind::Pipe { o, .. }
            | OpKind::DropObj { o }
            | OpKind::DropObjPanicking { o } => Some(*o),
            _ => None,
        }
    }
    pub fn tag(&self) -> &'static str {
        match &self.k {
            OpKind::Desync { .. } => "desync",
            OpKind::Sync { .. } => "sync",
            OpKind::TrySync { .. } => "try_sync",
            OpKind::FutureDesync { .. } => "future_desync",
            OpKind::After { .. } => "after",
            OpKind::FutureSync { .. } => "future_sync",
            OpKind::Await { .. } => "await",
            OpKind::PollOnce { .. } => "poll_once",
            OpKind::DropHandle { .. } => "drop_handle",
            OpKind::Detach { .. } => "detach",
            OpKind::SyncWait { .. } => "sync_wait",
            OpKind::Suspend { .. } => "suspend",
            OpKind::Resume { .. } => "resume",
            OpKind::DropResumer { .. } => "drop_resumer",
            OpKind::PipeIn { .. } => "pipe_in",
            OpKind::Pipe { .. } => "pipe",
            OpKind::Next { .. } => "next",
            OpKind::PollNext { .. } => "poll_next",
            OpKind::DropOut { .. } => "drop_out",
            OpKind::SetDepth { .. } => "set_depth",
            OpKind::DropObj { .. } => "drop_obj",
            OpKind::OpenGate { .. } => "open_gate",
            OpKind::Poke { .. } => "poke",
            OpKind::WakeStale { .. } => "wake_stale",
            OpKind::Push { .. } => "push",
            OpKind::CloseStream { .. } => "close_stream",
            OpKind::Yield(_) => "yield",
            OpKind::SweepWait => "sweep_wait",
            OpKind::SweepDone => "sweep_done",
            OpKind::Mark => "mark",
            OpKind::WaitGate { .. } => "wait_gate",
            OpKind::DropObjPanicking { .. } => "drop_obj_panicking",
            OpKind::Despawn => "despawn",
        }
    }
}
