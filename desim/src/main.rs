//! desim: deterministic simulation of desync with fault injection.
//!
//!   desim check  --prop C04 --tier quick            driver: spawns worker processes, writes evidence
//!   desim worker --prop C04 --tier quick --worker i --of n   one slice of the run indices
//!   desim replay <file>                              re-executes a recorded failure
//!   desim determinism --prop C01 --runs N            self-test: every run twice, logs compared

mod families;
mod gen;
mod gen2;
mod interp;
mod ir;
mod minimise;
mod oracle;
mod sim;
mod world;

use desync_verif_rt as rt;
use rt::strategy::{mix, Rng, StrategyKind};
use serde::{Deserialize, Serialize};
use serde_json::json;
use std::collections::{BTreeMap, BTreeSet};
use std::sync::Arc;
use std::time::Instant;

pub const DEFAULT_SEED: u64 = 20260924;
pub const STEP_CAP: u64 = 30_000;

fn hash_str(s: &str) -> u64 {
    let mut h = 0xcbf29ce484222325u64;
    for b in s.bytes() {
        h = (h ^ b as u64).wrapping_mul(0x100000001b3);
    }
    h
}

#[derive(Clone, Debug, Serialize, Deserialize)]
pub struct ReplayFile {
    pub property: String,
    pub family: String,
    pub verif_seed: u64,
    pub run_index: u64,
    pub run_seed: u64,
    pub program: ir::Program,
    pub schedule_default: String,
    pub overrides: Vec<(u64, u32)>,
    pub sweep_fire_at: Option<u64>,
    pub violation: world::Violation,
    pub events_tail: Vec<String>,
    pub original_ops: usize,
    pub original_overrides: usize,
    pub minimise_runs: u64,
    pub steps: u64,
}

pub const SCHEDULE_DEFAULT: &str = "at every scheduling point continue the current task if it is runnable, else run the runnable task with the lowest id; notify_one wakes the first registered waiter; no spurious wake-ups; no self/duplicate wakes; overrides are [decision index, task id | option index | 1]";

pub fn pick_strategy(rng: &mut Rng, expected_len: u64) -> StrategyKind {
    match rng.weighted(&[4, 3, 2, 2]) {
        0 => StrategyKind::Uniform,
        1 => StrategyKind::Sticky(*rng.pick(&[20, 50, 100, 200, 350, 500])),
        2 => StrategyKind::Pct { depth: rng.range(1, 4) as u32, expected_len: expected_len.max(20) },
        _ => StrategyKind::Delay { k: rng.range(1, 5) as u32, expected_decisions: (expected_len / 2).max(10) },
    }
}

#[derive(Default, Serialize, Deserialize, Clone)]
pub struct WorkerSummary {
    pub runs: u64,
    pub by_family: BTreeMap<String, u64>,
    pub outcomes: BTreeMap<String, u64>,
    pub steps: u64,
    pub decisions: u64,
    pub inconclusive: u64,
    pub hung_runs: u64,
    pub ambiguous_hangs: u64,
    pub other_property_violations: BTreeMap<String, u64>,
    pub nontrivial: u64,
    pub sampled_hashes: Vec<u64>,
    pub sample_mod: u64,
    pub counters: BTreeMap<String, u64>,
    pub cover: BTreeMap<String, u64>,
    pub strategies: BTreeMap<String, u64>,
    pub pools: BTreeMap<String, u64>,
    pub liveness_modes: BTreeMap<String, u64>,
    pub samples: Vec<serde_json::Value>,
    pub violation: Option<ReplayFile>,
    pub violation_count: u64,
    pub harness_errors: Vec<String>,
    pub wall_s: f64,
    pub sweep_positions: u64,
    pub max_ops: u64,
    pub ops_total: u64,
    #[serde(default)]
    pub other_samples: Vec<String>,
    #[serde(default)]
    pub sweep_hist: BTreeMap<String, u64>,
}

fn add(m: &mut BTreeMap<String, u64>, k: &str, v: u64) {
    if v > 0 {
        *m.entry(k.to_string()).or_insert(0) += v;
    }
}

fn prog_hash(p: &ir::Program) -> u64 {
    hash_str(&serde_json::to_string(p).unwrap())
}

pub fn events_tail(w: &world::World, n: usize) -> Vec<String> {
    let ev = &w.events;
    let from = ev.len().saturating_sub(n);
    ev[from..].iter().map(|e| format!("#{} task{} {} {} {}", e.seq, e.task, e.code, e.a, e.b)).collect()
}

pub fn event_log_hash(w: &world::World) -> u64 {
    let mut h = 0xcbf29ce484222325u64;
    for e in &w.events {
        for x in [e.seq, e.task as u64, hash_str(e.code), e.a as u64, e.b as u64] {
            h = (h ^ x).wrapping_mul(0x100000001b3);
        }
    }
    h
}

struct Args {
    m: BTreeMap<String, String>,
    pos: Vec<String>,
}

fn parse_args() -> Args {
    let mut m = BTreeMap::new();
    let mut pos = vec![];
    let a: Vec<String> = std::env::args().skip(1).collect();
    let mut i = 0;
    while i < a.len() {
        if let Some(k) = a[i].strip_prefix("--") {
            if i + 1 < a.len() && !a[i + 1].starts_with("--") {
                m.insert(k.to_string(), a[i + 1].clone());
                i += 2;
            } else {
                m.insert(k.to_string(), "1".to_string());
                i += 1;
            }
        } else {
            pos.push(a[i].clone());
            i += 1;
        }
    }
    Args { m, pos }
}

impl Args {
    fn get(&self, k: &str) -> Option<&str> {
        self.m.get(k).map(|s| s.as_str())
    }
    fn u64(&self, k: &str, d: u64) -> u64 {
        self.get(k).and_then(|s| s.parse().ok()).unwrap_or(d)
    }
}

fn verif_seed(a: &Args) -> u64 {
    a.get("seed").and_then(|s| s.parse().ok()).or_else(|| std::env::var("VERIF_SEED").ok().and_then(|s| s.parse().ok())).unwrap_or(DEFAULT_SEED)
}

/// One case of the search space: everything about it follows from (seed, property, family, index).
pub struct Case {
    pub family: &'static str,
    pub index: u64,
    pub run_seed: u64,
    pub prog: Arc<ir::Program>,
    pub strategy: StrategyKind,
    pub sched_seed: u64,
    pub sweep_fire_at: Option<u64>,
}

pub static THOROUGH: std::sync::atomic::AtomicBool = std::sync::atomic::AtomicBool::new(false);

pub fn make_case(seed: u64, prop: &str, fam: &families::Family, index: u64) -> Case {
    let run_seed = mix(mix(mix(seed, hash_str(prop)), hash_str(fam.name)), index);
    let big = THOROUGH.load(std::sync::atomic::Ordering::Relaxed) && index % 2 == 1;
    gen::BIG.with(|b| b.set(big));
    let mut rng = Rng::new(run_seed);
    // position sweeps: cases come in groups that share one program and differ in the position
    let (prog, sweep_fire_at) = if fam.sweep_width > 0 {
        let group = index / fam.sweep_width;
        let pos = index % fam.sweep_width;
        let gseed = mix(mix(mix(seed, hash_str(prop)), hash_str(fam.name)), 0x5eed_0000_0000 + group);
        let mut grng = Rng::new(gseed);
        match fam.gen_at {
            Some(ga) => (ga(&mut grng, pos), None),
            None => ((fam.gen)(&mut grng), Some(pos)),
        }
    } else {
        ((fam.gen)(&mut rng), None)
    };
    let expected = 40 + 25 * prog.op_count() as u64;
    let strategy = pick_strategy(&mut rng, expected);
    let sched_seed = rng.next();
    Case { family: fam.name, index, run_seed, prog: Arc::new(prog), strategy, sched_seed, sweep_fire_at }
}

pub fn run_case(c: &Case) -> sim::RunReport {
    sim::run_one(&sim::RunSpec { prog: c.prog.clone(), strategy: c.strategy.clone(), sched_seed: c.sched_seed, replay: None, sweep_fire_at: c.sweep_fire_at, step_cap: STEP_CAP })
}

fn progress_path(root: Option<&str>, prop: &str, wi: u64) -> Option<String> {
    let root = root.map(|r| r.to_string()).or_else(|| std::env::var("DESIM_VERIF_ROOT").ok())?;
    let dir = format!("{}/replays/{}", root, prop);
    std::fs::create_dir_all(&dir).ok()?;
    Some(format!("{}/.progress-{}", dir, wi))
}

fn worker(a: &Args) {
    let prop = a.get("prop").expect("--prop").to_string();
    let tier = a.get("tier").unwrap_or("quick").to_string();
    let seed = verif_seed(a);
    let wi = a.u64("worker", 0);
    let wn = a.u64("of", 1);
    let scale = a.get("scale").and_then(|s| s.parse::<f64>().ok()).unwrap_or(1.0);
    let fams = families::for_property(&prop);
    let t0 = Instant::now();
    let mut s = WorkerSummary::default();
    let thorough = tier == "thorough";
    s.sample_mod = if thorough { 1024 } else { 64 };
    let mut seen = BTreeSet::new();
    let time_cap = a.u64("time-cap", if thorough { 3000 } else { 600 });
    let known = minimise::load_known_findings();
    // Watchdog: one simulated run takes microseconds to milliseconds.  A run that makes no progress for a long stretch of wall
    // time has blocked the operating-system thread outside the modelled primitives (for example in a foreign executor's
    // park): the simulator cannot see or schedule that, so the process reports the case and gives up.
    let beat = std::sync::Arc::new(std::sync::atomic::AtomicU64::new(0));
    let current = std::sync::Arc::new(std::sync::Mutex::new((String::new(), 0u64)));
    {
        let (beat, current) = (beat.clone(), current.clone());
        let limit = a.u64("hang-secs", 60);
        std::thread::spawn(move || {
            let mut last = u64::MAX;
            let mut since = Instant::now();
            loop {
                std::thread::sleep(std::time::Duration::from_millis(500));
                let b = beat.load(std::sync::atomic::Ordering::Relaxed);
                if b != last {
                    last = b;
                    since = Instant::now();
                } else if since.elapsed().as_secs() >= limit {
                    let (f, i) = current.lock().map(|g| g.clone()).unwrap_or_default();
                    println!("DESIM-HUNG {} {}", f, i);
                    use std::io::Write;
                    std::io::stdout().flush().ok();
                    std::process::exit(97);
                }
            }
        });
    }
    // The case about to run is noted in a small file (one pwrite per case): if the code under test corrupts memory and the
    // process dies, the parent can name the case.
    let progress = progress_path(None, &prop, wi).and_then(|p| std::fs::OpenOptions::new().create(true).write(true).truncate(true).open(p).ok());
    'outer: for fam in &fams {
        // (diagnostics only: restrict a batch to one scenario family)
        if a.get("family").map_or(false, |n| n != fam.name) {
            continue;
        }
        let total = ((if thorough { fam.thorough_runs } else { fam.quick_runs }) as f64 * scale) as u64;
        let mut i = wi;
        while i < total {
            beat.fetch_add(1, std::sync::atomic::Ordering::Relaxed);
            if let Some(f) = &progress {
                use std::os::unix::fs::FileExt;
                let _ = f.write_at(format!("{:<40} {:>14}\n", fam.name, i).as_bytes(), 0);
            }
            if let Ok(mut g) = current.lock() {
                if g.0 != fam.name {
                    g.0 = fam.name.to_string();
                }
                g.1 = i;
            }
            if (i / wn) % 512 == 0 && t0.elapsed().as_secs() > time_cap {
                // not an error: the property held on everything explored, less was explored (slow or busy machine)
                s.harness_errors.push(format!("NOTE: time cap of {} s reached in family {} after {} runs of this worker", time_cap, fam.name, s.runs));
                break 'outer;
            }
            let c = make_case(seed, &prop, fam, i);
            let rep = run_case(&c);
            let verdict = oracle::analyse(&rep);
            s.runs += 1;
            add(&mut s.by_family, fam.name, 1);
            add(&mut s.outcomes, &format!("{:?}", rep.result.outcome), 1);
            s.steps += rep.result.counters.steps;
            s.decisions += rep.result.counters.decisions;
            let nops = c.prog.op_count() as u64;
            s.ops_total += nops;
            s.max_ops = s.max_ops.max(nops);
            if c.sweep_fire_at.is_some() && rep.result.counters.sweep_fired > 0 {
                s.sweep_positions += 1;
                add(&mut s.sweep_hist, &format!("{:03}", c.sweep_fire_at.unwrap()), 1);
            }
            add(&mut s.strategies, &format!("{:?}", c.strategy).split(|ch| ch == '(' || ch == ' ').next().unwrap_or("?").to_string(), 1);
            add(&mut s.pools, &format!("pool{}", c.prog.pool_max), 1);
            add(&mut s.liveness_modes, &format!("{:?}", oracle::liveness_mode(&c.prog)), 1);
            if verdict.inconclusive {
                s.inconclusive += 1;
            }
            if verdict.hung {
                s.hung_runs += 1;
            }
            if verdict.ambiguous_hang {
                s.ambiguous_hangs += 1;
            }
            if let Some(e) = &verdict.harness_error {
                if s.harness_errors.len() < 5 {
                    s.harness_errors.push(format!("{} #{}: {}", fam.name, i, e));
                }
            }
            // non-trivial: at least one real scheduling decision among tasks that share an object
            if rep.result.counters.decisions >= 1 && nops >= 2 {
                s.nontrivial += 1;
                let h = mix(prog_hash(&c.prog), rep.result.sig);
                if h % s.sample_mod == 0 {
                    seen.insert(h);
                }
            }
            let k = &rep.result.counters;
            for (n, val) in [
                ("preemptions", k.preemptions),
                ("spurious_condvar_wakeups", k.spurious_cv),
                ("spurious_park_returns", k.spurious_park),
                ("notify_one_choices", k.notify_picks),
                ("condvar_waits", k.cv_waits),
                ("parks", k.parks),
                ("contended_locks", k.lock_contended),
                ("pool_threads_spawned", k.pool_spawned),
                ("tasks_spawned", k.tasks_spawned),
                ("quiescences", k.quiescences),
                ("sweep_injections_fired", k.sweep_fired),
                ("harness_coins", k.harness_coins),
            ] {
                add(&mut s.counters, n, val);
            }
            if let serde_json::Value::Object(m) = serde_json::to_value(&rep.world.cover).unwrap() {
                for (kk, vv) in m {
                    if let Some(n) = vv.as_u64() {
                        add(&mut s.cover, &kk, n);
                    } else if let Some(arr) = vv.as_array() {
                        for (idx, x) in arr.iter().enumerate() {
                            add(&mut s.cover, &format!("{}_{}", kk, families::STATE_NAMES[idx.min(7)]), x.as_u64().unwrap_or(0));
                        }
                    }
                }
            }
            if s.samples.len() < 2 && nops >= 3 && rep.result.counters.decisions >= 3 && (i / wn) % 97 == 3 {
                s.samples.push(json!({
                    "family": fam.name, "run_index": i, "run_seed": c.run_seed, "strategy": format!("{:?}", c.strategy),
                    "program": &*c.prog, "steps": rep.result.counters.steps, "decisions": rep.result.counters.decisions,
                    "deviations_from_default_schedule": rep.result.deviations.len(), "outcome": format!("{:?}", rep.result.outcome),
                    "history_tail": events_tail(&rep.world, 12),
                }));
            }
            let mut mine: Vec<&world::Violation> = verdict.violations.iter().filter(|x| x.prop == prop).collect();
            for x in verdict.violations.iter().filter(|x| x.prop != prop) {
                add(&mut s.other_property_violations, &x.prop, 1);
                if s.other_samples.len() < 3 {
                    s.other_samples.push(format!("{} [{}] in {} #{}", x.prop, x.kind, fam.name, i));
                }
            }
            mine.retain(|x| !minimise::is_known(&known, x, &rep.world));
            if !mine.is_empty() {
                s.violation_count += 1;
                if s.violation.is_none() {
                    let first = mine[0].clone();
                    let rf = minimise::minimise_and_package(&prop, seed, &c, &rep, &first, a.u64("minimise-secs", 40));
                    s.violation = Some(rf);
                    // one confirmed, minimised violation is enough for this slice
                    break 'outer;
                }
            }
            i += wn;
        }
    }
    s.sampled_hashes = seen.into_iter().collect();
    s.wall_s = t0.elapsed().as_secs_f64();
    println!("DESIM-SUMMARY {}", serde_json::to_string(&s).unwrap());
}

fn check(a: &Args) -> i32 {
    let prop = a.get("prop").expect("--prop").to_string();
    let tier = a.get("tier").map(|s| s.to_string()).or_else(|| std::env::var("VERIF_TIER").ok()).unwrap_or("quick".into());
    let seed = verif_seed(a);
    let verif_root = a.get("verif-root").unwrap_or("/verif").to_string();
    let n = a.u64("workers", 16);
    let t0 = Instant::now();
    // the check as a whole is bounded too (the minimiser re-runs cases in this process)
    {
        let limit = a.u64("wall-limit", if tier == "thorough" { 3 * 3600 } else { 1800 });
        let prop = prop.clone();
        std::thread::spawn(move || {
            std::thread::sleep(std::time::Duration::from_secs(limit));
            println!("HARNESS-ERROR the check of {} exceeded its wall-clock limit of {} s", prop, limit);
            use std::io::Write;
            std::io::stdout().flush().ok();
            std::process::exit(2);
        });
    }
    let exe = std::env::current_exe().unwrap();
    let mut kids = vec![];
    for i in 0..n {
        let mut cmd = std::process::Command::new(&exe);
        cmd.arg("worker").arg("--prop").arg(&prop).arg("--tier").arg(&tier).arg("--seed").arg(seed.to_string()).arg("--worker").arg(i.to_string()).arg("--of").arg(n.to_string());
        for k in ["scale", "time-cap", "minimise-secs", "family"] {
            if let Some(v) = a.get(k) {
                cmd.arg(format!("--{}", k)).arg(v);
            }
        }
        cmd.env("DESIM_VERIF_ROOT", &verif_root);
        cmd.stdout(std::process::Stdio::piped());
        kids.push(cmd.spawn().expect("spawn worker"));
    }
    let mut sums: Vec<WorkerSummary> = vec![];
    let mut crashed = vec![];
    let mut crashed_workers: Vec<usize> = vec![];
    let mut hung_cases: Vec<String> = vec![];
    for (i, k) in kids.into_iter().enumerate() {
        let o = k.wait_with_output().expect("wait");
        let text = String::from_utf8_lossy(&o.stdout).to_string();
        match text.lines().find_map(|l| l.strip_prefix("DESIM-SUMMARY ")) {
            Some(j) => match serde_json::from_str::<WorkerSummary>(j) {
                Ok(s) => sums.push(s),
                Err(e) => crashed.push(format!("worker {}: bad summary: {}", i, e)),
            },
            None => {
                if let Some(h) = text.lines().find_map(|l| l.strip_prefix("DESIM-HUNG ")) {
                    hung_cases.push(h.to_string());
                } else {
                    crashed.push(format!("worker {} died: {:?}", i, o.status));
                    crashed_workers.push(i);
                }
            }
        }
    }
    let mut tot = WorkerSummary::default();
    let mut hashes = BTreeSet::new();
    let mut violations: Vec<ReplayFile> = vec![];
    for s in &sums {
        tot.runs += s.runs;
        tot.steps += s.steps;
        tot.decisions += s.decisions;
        tot.inconclusive += s.inconclusive;
        tot.hung_runs += s.hung_runs;
        tot.ambiguous_hangs += s.ambiguous_hangs;
        tot.nontrivial += s.nontrivial;
        tot.violation_count += s.violation_count;
        tot.sweep_positions += s.sweep_positions;
        tot.ops_total += s.ops_total;
        tot.max_ops = tot.max_ops.max(s.max_ops);
        tot.sample_mod = s.sample_mod;
        for (k, v) in &s.by_family {
            add(&mut tot.by_family, k, *v);
        }
        for (k, v) in &s.outcomes {
            add(&mut tot.outcomes, k, *v);
        }
        for (k, v) in &s.other_property_violations {
            add(&mut tot.other_property_violations, k, *v);
        }
        for (k, v) in &s.counters {
            add(&mut tot.counters, k, *v);
        }
        for (k, v) in &s.cover {
            add(&mut tot.cover, k, *v);
        }
        for (k, v) in &s.strategies {
            add(&mut tot.strategies, k, *v);
        }
        for (k, v) in &s.pools {
            add(&mut tot.pools, k, *v);
        }
        for (k, v) in &s.liveness_modes {
            add(&mut tot.liveness_modes, k, *v);
        }
        for h in &s.sampled_hashes {
            hashes.insert(*h);
        }
        if tot.samples.len() < 3 {
            tot.samples.extend(s.samples.iter().cloned().take(1));
        }
        tot.harness_errors.extend(s.harness_errors.iter().cloned());
        tot.other_samples.extend(s.other_samples.iter().cloned());
        for (k, v) in &s.sweep_hist {
            add(&mut tot.sweep_hist, k, *v);
        }
        if let Some(v) = &s.violation {
            violations.push(v.clone());
        }
    }
    let wall = t0.elapsed().as_secs_f64();
    let known = minimise::load_known_findings();
    for kf in known.iter().filter(|k| k.property == prop && k.status == "known") {
        println!("KNOWN-FINDING: property={} {}", prop, kf.what);
    }

    // replay files
    let mut exit = 0;
    let mut replay_paths = vec![];
    if !violations.is_empty() {
        violations.sort_by_key(|v| (v.program.op_count(), v.overrides.len()));
        let dir = format!("{}/replays/{}", verif_root, prop);
        std::fs::create_dir_all(&dir).ok();
        for (i, vf) in violations.iter().enumerate().take(3) {
            let path = format!("{}/{}-{}.json", dir, vf.family, vf.run_seed);
            std::fs::write(&path, serde_json::to_string_pretty(vf).unwrap()).expect("write replay");
            if i == 0 {
                println!("VIOLATION property={} replay={}", prop, path);
                println!("  {} [{}]: {}", vf.violation.prop, vf.violation.kind, vf.violation.msg);
                println!("  minimised to {} operations and {} schedule deviations (from {} / {})", vf.program.op_count(), vf.overrides.len(), vf.original_ops, vf.original_overrides);
            }
            replay_paths.push(path);
        }
        exit = 1;
    }
    // A worker process that dies (signal, abort) while running the real code is itself a memory-safety finding:
    // the slice is deterministic, so re-running it is the replay.
    if !hung_cases.is_empty() {
        let dir = format!("{}/replays/{}", verif_root, prop);
        std::fs::create_dir_all(&dir).ok();
        let mut parts = hung_cases[0].split_whitespace();
        let (fam, idx) = (parts.next().unwrap_or("").to_string(), parts.next().and_then(|x| x.parse::<u64>().ok()).unwrap_or(0));
        let path = format!("{}/blocked-{}-{}.json", dir, fam, idx);
        std::fs::write(&path, serde_json::to_string_pretty(&json!({"property": prop, "hang_case": {"family": fam, "index": idx, "seed": seed, "tier": tier}, "what": "a simulated run stopped making progress for a minute of wall time: a thread of the code under test blocked the operating-system thread outside the modelled primitives (std Mutex/Condvar/park/channel), which no caller of the library can recover from; the call that was in progress never returns"})).unwrap()).ok();
        println!("VIOLATION property={} replay={}", prop, path);
        println!("  {} [blocked_outside_the_simulation]: family {} case {}: a run never finished: a thread blocked outside the modelled primitives (for example in a nested executor's own park); {} simulator processes gave up", prop, fam, idx, hung_cases.len());
        exit = 1;
    }
    if !crashed_workers.is_empty() && exit == 0 {
        // A simulator process died (segmentation fault, abort, stack overflow): on a tree on which the property holds no run does
        // that, the simulated library executes nothing but its own code and the harness's.  It is memory corruption or a double
        // panic inside the code under test, reported against the property being checked (for C14 it is the property itself).
        let dir = format!("{}/replays/{}", verif_root, prop);
        std::fs::create_dir_all(&dir).ok();
        let wi = crashed_workers[0];
        let scale = a.get("scale").unwrap_or("1").to_string();
        let at = progress_path(Some(&verif_root), &prop, wi as u64).and_then(|p| std::fs::read_to_string(p).ok()).and_then(|t| {
            let mut it = t.split_whitespace();
            Some((it.next()?.to_string(), it.next()?.parse::<u64>().ok()?))
        });
        let (path, what) = match &at {
            Some((fam, idx)) => (format!("{}/crash-{}-{}.json", dir, fam, idx), format!("family {} case {}", fam, idx)),
            None => (format!("{}/crash-worker-{}-of-{}.json", dir, wi, n), format!("slice {}/{}", wi, n)),
        };
        let mut j = json!({"property": prop, "crash_slice": {"tier": tier, "seed": seed, "worker": wi, "of": n, "scale": scale}, "what": crashed[0]});
        if let Some((fam, idx)) = &at {
            j["crash_case"] = json!({"family": fam, "index": idx, "seed": seed, "tier": tier});
        }
        std::fs::write(&path, serde_json::to_string_pretty(&j).unwrap()).ok();
        println!("VIOLATION property={} replay={}", prop, path);
        println!("  {} [simulator_process_died]: the simulator process executing {} died ({}): memory corruption (or a panic while panicking) in the code under test; {} processes died", prop, what, crashed[0], crashed_workers.len());
        tot.violation_count += 1;
        exit = 1;
    }
    let fams = families::for_property(&prop);
    let level = families::level_for(&prop);
    if tot.samples.is_empty() {
        if let Some(f) = fams.first() {
            let c = make_case(seed, &prop, f, 0);
            tot.samples.push(json!({"family": f.name, "run_index": 0, "run_seed": c.run_seed, "strategy": format!("{:?}", c.strategy), "program": &*c.prog}));
        }
    }
    let runs_per_hour = if wall > 0.0 { tot.runs as f64 / wall * 3600.0 } else { 0.0 };
    let distinct = hashes.len() as u64;
    let mut harness_fail = !crashed.is_empty() || tot.harness_errors.iter().any(|e| !e.starts_with("NOTE:"));
    for e in tot.harness_errors.iter().filter(|e| e.starts_with("NOTE:")).take(3) {
        println!("{}", e);
    }
    let inconclusive_rate = if tot.runs > 0 { tot.inconclusive as f64 / tot.runs as f64 } else { 0.0 };
    if inconclusive_rate > 0.005 {
        harness_fail = true;
        tot.harness_errors.push(format!("inconclusive rate {:.4} above 0.5%", inconclusive_rate));
    }
    // reach probes that must not be stuck at zero
    let mut missing = vec![];
    if exit == 0 {
        for p in families::required_probes(&prop) {
            let got = tot.cover.get(*p).or_else(|| tot.counters.get(*p)).copied().unwrap_or(0);
            if got == 0 {
                missing.push(p.to_string());
            }
        }
        if !missing.is_empty() {
            harness_fail = true;
            tot.harness_errors.push(format!("reach probes stuck at zero: {:?}", missing));
        }
    }
    let evidence = json!({
        "property_id": prop,
        "tier": tier,
        "seed": seed,
        "level": level,
        "wall_s": wall,
        "violations": tot.violation_count,
        "coverage": {
            "evaluations": tot.runs,
            "distinct_nontrivial": distinct,
            "rule": format!("one evaluation = one simulated run (generated program + seeded schedule + fault plan) of the real desync code under the deterministic kernel; a run is non-trivial when its program has >= 2 operations and the scheduler had >= 1 genuine choice between runnable tasks ({} such runs); two runs are the same case iff hash(program, full decision sequence) is equal; distinct_nontrivial counts exactly the distinct hashes among the 1/{} sample with hash % {} == 0, so it is a measured lower bound (estimated total distinct: {})", tot.nontrivial, tot.sample_mod, tot.sample_mod, distinct * tot.sample_mod),
            "samples": tot.samples,
            "runs_by_family": tot.by_family,
            "families": fams.iter().map(|f| json!({"name": f.name, "what": f.what, "sweep_width": f.sweep_width})).collect::<Vec<_>>(),
            "runs_per_hour": runs_per_hour,
            "seeds": format!("VERIF_SEED={} -> run_seed = mix(seed, property, family, index); indices 0..N per family", seed),
            "simulated_time": {"scheduling_steps_total": tot.steps, "scheduling_decisions_total": tot.decisions, "mean_steps_per_run": if tot.runs > 0 { tot.steps / tot.runs } else { 0 }, "step_cap": STEP_CAP, "note": "desync has no clock or timers; simulated time is counted in scheduling points"},
            "faults_injected": tot.counters,
            "reach_probes": tot.cover,
            "run_outcomes": tot.outcomes,
            "inconclusive_runs": tot.inconclusive,
            "hung_runs_total": tot.hung_runs,
            "hangs_not_attributable": tot.ambiguous_hangs,
            "violations_of_other_properties_seen": tot.other_property_violations,
            "strategies": tot.strategies,
            "pool_maximum": tot.pools,
            "liveness_promises": tot.liveness_modes,
            "program_size": {"max_operations": tot.max_ops, "mean_operations": if tot.runs > 0 { tot.ops_total as f64 / tot.runs as f64 } else { 0.0 }},
            "sweep_positions_injected": tot.sweep_positions,
            "sweep_injections_by_position": tot.sweep_hist,
            "real_vs_stub": {
                "real": ["src/desync.rs", "src/pipe.rs", "src/scheduler/* (built from the repository's working tree)", "futures crate pieces desync uses (oneshot, FutureObj, ArcWake)"],
                "model": ["Mutex, Condvar, mpsc::channel, thread spawn/park/unpark/join/panicking (desync_verif_rt, every operation a scheduling point)", "lazy_static globals (per-run store)", "initial pool maximum (run configuration instead of num_cpus)"],
                "stub": ["Gate (one-shot external event)", "SimStream (input stream)", "sim_block_on / PollOnce executor", "environment threads"]
            },
            "replay_files": replay_paths,
            "exhaustive": false
        },
        "assumptions": [
            "the modelled Mutex/Condvar/mpsc/park follow std's documented semantics (including poisoning rules and spurious wake-ups)",
            "code between two scheduling points executes atomically (true: all shared state in desync is behind these primitives except one Relaxed id counter)",
            "futures' oneshot channel is not instrumented: it never blocks and executes atomically between scheduling points",
            "seeded search samples schedules; a clean batch is evidence, not proof"
        ]
    });
    let ev_dir = format!("{}/evidence", verif_root);
    std::fs::create_dir_all(&ev_dir).ok();
    std::fs::write(format!("{}/{}.json", ev_dir, prop), serde_json::to_string_pretty(&evidence).unwrap()).expect("write evidence");
    println!(
        "property {} tier {} seed {}: {} runs ({} non-trivial, >= {} distinct) in {:.1}s, {} steps, {} violations, {} hung, {} inconclusive; other properties: {:?}",
        prop, tier, seed, tot.runs, tot.nontrivial, distinct, wall, tot.steps, tot.violation_count, tot.hung_runs, tot.inconclusive, tot.other_property_violations
    );
    for c in &crashed {
        println!("WORKER-CRASH {}", c);
    }
    for o in tot.other_samples.iter().take(6) {
        println!("  (other property) {}", o);
    }
    if exit == 1 {
        return 1;
    }
    if harness_fail {
        for e in tot.harness_errors.iter().take(8) {
            println!("HARNESS-ERROR {}", e);
        }
        return 2;
    }
    0
}

fn replay(a: &Args) -> i32 {
    let path = a.pos.get(1).expect("replay <file>");
    let text = std::fs::read_to_string(path).expect("read replay");
    if let Ok(v) = serde_json::from_str::<serde_json::Value>(&text) {
        let vprop = v["property"].as_str().unwrap_or("C14").to_string();
        if let Some(c) = v.get("crash_case") {
            let exe = std::env::current_exe().unwrap();
            let st = std::process::Command::new(exe)
                .arg("case").arg("--prop").arg(&vprop)
                .arg("--family").arg(c["family"].as_str().unwrap_or(""))
                .arg("--index").arg(c["index"].as_u64().unwrap_or(0).to_string())
                .arg("--seed").arg(c["seed"].as_u64().unwrap_or(DEFAULT_SEED).to_string())
                .stdout(std::process::Stdio::null()).stderr(std::process::Stdio::null()).status().expect("run case");
            if !st.success() {
                println!("VIOLATION property={} replay={}", vprop, path);
                println!("reproduced: the process running the case died again: {:?}", st);
                return 1;
            }
            println!("the case alone ran to its end; running the slice it was part of");
        }
        if let Some(c) = v.get("crash_slice") {
            let exe = std::env::current_exe().unwrap();
            let st = std::process::Command::new(exe)
                .arg("worker").arg("--prop").arg(&vprop)
                .arg("--tier").arg(c["tier"].as_str().unwrap_or("quick"))
                .arg("--seed").arg(c["seed"].as_u64().unwrap_or(DEFAULT_SEED).to_string())
                .arg("--worker").arg(c["worker"].as_u64().unwrap_or(0).to_string())
                .arg("--of").arg(c["of"].as_u64().unwrap_or(1).to_string())
                .arg("--scale").arg(c["scale"].as_str().unwrap_or("1"))
                .stdout(std::process::Stdio::null()).status().expect("run slice");
            if !st.success() {
                println!("VIOLATION property={} replay={}", vprop, path);
                println!("reproduced: the slice died again: {:?}", st);
                return 1;
            }
            println!("NOT REPRODUCED: the slice ran to its end");
            return 2;
        }
    }
    if let Ok(v) = serde_json::from_str::<serde_json::Value>(&text) {
        if let Some(c) = v.get("hang_case") {
            let exe = std::env::current_exe().unwrap();
            let prop = v["property"].as_str().unwrap_or("C01").to_string();
            let mut child = std::process::Command::new(exe)
                .arg("case").arg("--prop").arg(&prop)
                .arg("--family").arg(c["family"].as_str().unwrap_or(""))
                .arg("--index").arg(c["index"].as_u64().unwrap_or(0).to_string())
                .arg("--seed").arg(c["seed"].as_u64().unwrap_or(DEFAULT_SEED).to_string())
                .stdout(std::process::Stdio::null()).spawn().expect("run case");
            let t0 = Instant::now();
            loop {
                if let Ok(Some(_)) = child.try_wait() {
                    println!("NOT REPRODUCED: the case ran to its end");
                    return 2;
                }
                if t0.elapsed().as_secs() >= 30 {
                    child.kill().ok();
                    println!("VIOLATION property={} replay={}", prop, path);
                    println!("reproduced: the case is still blocked after 30 s of wall time");
                    return 1;
                }
                std::thread::sleep(std::time::Duration::from_millis(200));
            }
        }
    }
    let rf: ReplayFile = serde_json::from_str(&text).expect("parse replay");
    let spec = sim::RunSpec { prog: Arc::new(rf.program.clone()), strategy: StrategyKind::Uniform, sched_seed: 0, replay: Some(rf.overrides.clone()), sweep_fire_at: rf.sweep_fire_at, step_cap: STEP_CAP };
    let rep = sim::run_one(&spec);
    let verdict = oracle::analyse(&rep);
    println!("replayed {} steps, {} decisions, outcome {:?}", rep.result.counters.steps, rep.result.counters.decisions, rep.result.outcome);
    if a.get("verbose").is_some() {
        for e in &rep.world.events {
            println!("  #{} task{} {} {} {}", e.seq, e.task, e.code, e.a, e.b);
        }
        for t in &rep.result.tasks {
            println!("  task {} {} {:?} {:?}", t.id, t.name, t.state, t.last_panic);
        }
        println!("  facts: {:?}", rep.facts);
    }
    for x in &verdict.violations {
        println!("  violation {} [{}] ops {:?}: {}", x.prop, x.kind, x.ops, x.msg);
    }
    let same = verdict.violations.iter().find(|x| x.prop == rf.violation.prop && x.kind == rf.violation.kind);
    match same {
        Some(x) => {
            let identical = x.ops == rf.violation.ops && x.seq == rf.violation.seq && x.msg == rf.violation.msg;
            println!("VIOLATION property={} replay={}", rf.property, path);
            println!("reproduced{}: {} [{}] {}", if identical { " exactly" } else { " (same kind, different record)" }, x.prop, x.kind, x.msg);
            if !identical && a.get("refresh").is_some() {
                // the harness's own event numbering changed since the file was written: store the record as it is now
                let mut v: serde_json::Value = serde_json::from_str(&text).unwrap();
                v["violation"] = serde_json::to_value(x).unwrap();
                v["events_tail"] = serde_json::to_value(events_tail(&rep.world, 60)).unwrap();
                std::fs::write(path, serde_json::to_string_pretty(&v).unwrap()).expect("rewrite replay");
                println!("record refreshed");
            }
            1
        }
        None => {
            println!("NOT REPRODUCED: expected {} [{}]", rf.violation.prop, rf.violation.kind);
            2
        }
    }
}

fn determinism(a: &Args) -> i32 {
    let prop = a.get("prop").unwrap_or("C01").to_string();
    let seed = verif_seed(a);
    let runs = a.u64("runs", 500);
    let wi = a.u64("worker", 0);
    let wn = a.u64("of", 1);
    let fams = families::for_property(&prop);
    let mut bad = 0;
    let mut total = 0;
    let mut digest = 0u64;
    for fam in &fams {
        let mut i = wi;
        while i < runs {
            let c = make_case(seed, &prop, fam, i);
            let r1 = run_case(&c);
            let (h1, s1, st1, d1) = (event_log_hash(&r1.world), r1.result.sig, r1.result.counters.steps, r1.result.deviations.clone());
            drop(r1);
            let c2 = make_case(seed, &prop, fam, i);
            let r2 = run_case(&c2);
            let (h2, s2, st2) = (event_log_hash(&r2.world), r2.result.sig, r2.result.counters.steps);
            drop(r2);
            // and a third time from the recorded sparse schedule
            let spec = sim::RunSpec { prog: c.prog.clone(), strategy: StrategyKind::Uniform, sched_seed: 0, replay: Some(d1), sweep_fire_at: c.sweep_fire_at, step_cap: STEP_CAP };
            let r3 = sim::run_one(&spec);
            let (h3, s3, st3) = (event_log_hash(&r3.world), r3.result.sig, r3.result.counters.steps);
            total += 1;
            if (h1, s1, st1) != (h2, s2, st2) || (h1, s1, st1) != (h3, s3, st3) {
                bad += 1;
                if bad < 5 {
                    println!("NONDETERMINISTIC {} #{}: {:?} vs {:?} vs replay {:?}", fam.name, i, (h1, s1, st1), (h2, s2, st2), (h3, s3, st3));
                }
            }
            // order-independent, so that the total is the same however the cases are split over processes
            digest = digest.wrapping_add(mix(mix(hash_str(fam.name), i), mix(h1, s1)));
            i += wn;
        }
    }
    println!("DETERMINISM prop={} worker={}/{} cases={} mismatches={} digest={:016x}", prop, wi, wn, total, bad, digest);
    if bad > 0 {
        2
    } else {
        0
    }
}

fn main() {
    let a = parse_args();
    if a.get("tier").map(|s| s.to_string()).or_else(|| std::env::var("VERIF_TIER").ok()).as_deref() == Some("thorough") {
        THOROUGH.store(true, std::sync::atomic::Ordering::Relaxed);
    }
    let code = match a.pos.first().map(|s| s.as_str()) {
        Some("worker") => {
            worker(&a);
            0
        }
        Some("check") => check(&a),
        Some("replay") => replay(&a),
        Some("determinism") => determinism(&a),
        Some("case") => {
            let prop = a.get("prop").unwrap_or("C01").to_string();
            let fams = families::for_property(&prop);
            let idx = a.u64("index", 0);
            let to = a.u64("to", idx);
            for f in fams.iter().filter(|f| a.get("family").map_or(true, |n| n == f.name)) {
                for i in idx..=to {
                    let c = make_case(verif_seed(&a), &prop, f, i);
                    let rep = run_case(&c);
                    let verdict = oracle::analyse(&rep);
                    let interesting = verdict.inconclusive || !verdict.violations.is_empty() || verdict.hung || verdict.harness_error.is_some();
                    if a.get("only").map_or(false, |o| (o == "inconclusive" && !verdict.inconclusive) || (o == "bad" && !interesting)) {
                        continue;
                    }
                    println!("== {} #{} {:?} outcome {:?} steps {} hung {} inconclusive {} harness {:?}", f.name, i, c.strategy, rep.result.outcome, rep.result.counters.steps, verdict.hung, verdict.inconclusive, verdict.harness_error);
                    if a.get("verbose").is_some() {
                        println!("{}", serde_json::to_string(&*c.prog).unwrap());
                        for l in events_tail(&rep.world, a.u64("tail", 60) as usize) {
                            println!("   {}", l);
                        }
                        for t in &rep.result.tasks {
                            println!("   task {} {} {:?} points {} {:?}", t.id, t.name, t.state, t.points, t.last_panic);
                        }
                        println!("   facts {:?}", rep.facts);
                        println!("   notes {:?}", rep.world.notes);
                    }
                    for x in &verdict.violations {
                        println!("   violation {} [{}] {:?}: {}", x.prop, x.kind, x.ops, x.msg);
                    }
                }
            }
            0
        }
        Some("show") => {
            let prop = a.get("prop").unwrap_or("C01").to_string();
            let fams = families::for_property(&prop);
            let idx = a.u64("index", 0);
            for f in &fams {
                let c = make_case(verif_seed(&a), &prop, f, idx);
                println!("{} #{}: {:?}\n{}", f.name, idx, c.strategy, serde_json::to_string_pretty(&*c.prog).unwrap());
            }
            0
        }
        _ => {
            eprintln!("usage: desim check|worker|replay|determinism ...");
            2
        }
    };
    std::process::exit(code);
}
