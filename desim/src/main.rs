use desync::Desync;
use desync_verif_rt as rt;
use rt::kernel::{self, RunConfig};
use rt::strategy::{build, StrategyKind};
use std::sync::Arc;

fn scenario() {
    let d = Arc::new(Desync::new(0u32));
    let d2 = d.clone();
    let t = rt::thread::spawn_named("caller1", move || {
        d2.desync(|v| *v += 1);
        let x = d2.sync(|v| { *v += 10; *v });
        assert!(x >= 11);
    });
    d.desync(|v| *v += 100);
    let y = d.sync(|v| *v);
    assert!(y >= 100);
    t.join().unwrap();
    assert_eq!(d.sync(|v| *v), 111);
    drop(d);
    desync::scheduler::scheduler().verif_set_max_threads(0);
    desync::scheduler::scheduler().despawn_threads_if_overloaded();
    rt::statics::teardown();
}

fn main() {
    let n: u64 = std::env::args().nth(1).and_then(|s| s.parse().ok()).unwrap_or(1000);
    let t0 = std::time::Instant::now();
    let mut outcomes = std::collections::BTreeMap::new();
    let mut steps = 0;
    let mut sigs = std::collections::BTreeSet::new();
    for i in 0..n {
        let cfg = RunConfig { initial_max_threads: (i % 3) as usize, ..Default::default() };
        let r = kernel::run(cfg, build(&StrategyKind::Uniform, i), scenario);
        *outcomes.entry(format!("{:?}", r.outcome)).or_insert(0u64) += 1;
        steps += r.counters.steps;
        sigs.insert(r.sig);
        if r.outcome != kernel::Outcome::Completed && outcomes.len() < 4 {
            for t in &r.tasks { println!("  seed {} {:?}", i, t); }
        }
    }
    println!("{:?} steps={} sigs={} in {:?}", outcomes, steps, sigs.len(), t0.elapsed());
}
