//! The harness side of one simulated world: history, shadow state of objects, gates, streams,
//! handles.  Everything lives on the one OS thread of the run; tasks only switch at scheduling
//! points, so plain fields are enough.  Never keep a reference into the world across an `rt` call.

use crate::ir::*;
use desync::scheduler::{JobQueue, QueueResumer, SchedulerFuture};
use desync::{Desync, PipeStream};
use desync_verif_rt as rt;
use futures::channel::oneshot::Canceled;
use futures::task::{ArcWake, Waker};
use rt::kernel::TaskId;
use std::cell::UnsafeCell;
use std::collections::VecDeque;
use std::future::Future;
use std::pin::Pin;
use std::sync::Arc;

pub const TOKEN_BASE: u64 = 1_000_000;

#[derive(Clone, Copy, PartialEq, Eq, Debug)]
pub enum Kind {
    Desync,
    Sync,
    TrySync,
    FutureDesync,
    After,
    FutureSync,
    Suspend,
    PipeIn,
    Pipe,
    Other,
}

impl Kind {
    /// kinds whose scheduling call fixes a place in the object's order
    pub fn ordered(self) -> bool {
        matches!(self, Kind::Desync | Kind::Sync | Kind::TrySync | Kind::FutureDesync | Kind::After | Kind::FutureSync)
    }
    /// kinds that run in the background without the caller waiting
    pub fn background(self) -> bool {
        matches!(self, Kind::Desync | Kind::FutureDesync | Kind::After)
    }
    pub fn has_body(self) -> bool {
        self.ordered()
    }
}

#[derive(Clone, PartialEq, Debug)]
pub enum CallOutcome {
    NotCalled,
    InCall,
    /// the scheduling call returned (value for sync / try_sync)
    Returned(Option<u64>),
    Busy,
    Panicked(String),
    /// object or handle was not there (shrunk program or dropped object)
    Skipped,
}

#[derive(Clone, Copy, PartialEq, Eq, Debug)]
pub enum FinKind {
    None,
    Normal,
    Cancelled,
    Panicked,
}

#[derive(Clone, Debug)]
pub struct OpRec {
    pub id: u32,
    pub kind: Kind,
    pub tag: &'static str,
    pub obj: Option<usize>,
    pub phase: usize,
    pub thread: Option<TaskId>,
    pub inv: Option<u64>,
    pub ret: Option<u64>,
    pub outcome: CallOutcome,
    pub start: Option<u64>,
    pub fin: Option<u64>,
    pub fin_kind: FinKind,
    pub starts: u32,
    pub closure_drops: u32,
    pub closure_drop_at: Option<u64>,
    pub runner: Option<TaskId>,
    pub runner_pool: bool,
    pub blocks_in_call: u64,
    pub blocks_inside: u64,
    pub handle: Option<usize>,
    pub waiting_gate: Option<usize>,
    pub waiting_gate_alt: Option<usize>,
    pub nested_in: Option<u32>,
    pub injects_panic: bool,
    pub blocking_steps: bool,
    /// (state tag, queued jobs) of the object's queue just before the call was made
    pub state_at_inv: Option<(u8, usize)>,
}

#[derive(Clone, Debug)]
pub struct HandleRec {
    pub op: Option<u32>,
    pub kind: Kind,
    pub created_at: Option<u64>,
    pub first_poll: Option<u64>,
    pub polls: u32,
    pub resolved_at: Option<u64>,
    pub value: Option<Result<u64, ()>>,
    pub dropped_at: Option<u64>,
    pub awaiting: Option<TaskId>,
    pub await_started: Option<u64>,
    pub wakes: u32,
    pub panicked: Option<String>,
    /// when and on which task waiting for the handle ended in a panic
    pub panicked_at: Option<(u64, TaskId)>,
    pub resumed_at: Option<u64>,
    /// waited for with SchedulerFuture::sync(): a sync call, which also waits for whatever was queued before it
    pub sync_wait: bool,
}

pub enum HandleSlot {
    Empty,
    /// being polled right now by some task
    Taken,
    Sched(SchedulerFuture<u64>),
    Boxed(Pin<Box<dyn Future<Output = Result<u64, Canceled>> + Send>>, Option<Arc<Desync<Val>>>),
    SuspendFut(Pin<Box<dyn Future<Output = Result<QueueResumer, Canceled>> + Send>>),
    Resumer(QueueResumer),
}

pub struct ObjSlot {
    pub arc: Option<Arc<Desync<Val>>>,
    /// never upgraded: only used to count the owners that are alive
    pub weak: Option<std::sync::Weak<Desync<Val>>>,
    pub queue: Option<Arc<JobQueue>>,
    pub occupant: Option<u32>,
    pub value_drops: u32,
    pub value_dropped_at: Option<u64>,
    pub drop_inv: Option<u64>,
    pub drop_ret: Option<u64>,
    pub dropper: Option<TaskId>,
    /// a job on this object was told to panic: later calls are expected to fail
    pub panic_injected: bool,
    pub panic_at: Option<u64>,
    pub chain: u64,
    pub log: Vec<u32>,
    pub table_dropped_at: Option<u64>,
    pub saw_busy: bool,
    pub suspended_at: Option<u64>,
    pub resumed_at: Option<u64>,
    /// a bare job queue: the harness's handle, a never-kept-alive reference for looking at it, and the value its jobs work on
    pub is_raw: bool,
    pub raw: Option<Arc<JobQueue>>,
    pub raw_weak: Option<std::sync::Weak<JobQueue>>,
    pub raw_val: usize,
}

impl ObjSlot {
    /// (state tag, queued jobs, registered sync waiters) of the object's queue, if it still exists and nobody holds its lock
    pub fn peek(&self) -> Option<(u8, usize, usize)> {
        if let Some(q) = self.queue.as_ref() {
            return q.verif_peek();
        }
        self.raw_weak.as_ref().and_then(|w| w.upgrade()).and_then(|q| q.verif_peek())
    }
    /// a bare queue whose last handle is gone
    pub fn raw_queue_gone(&self) -> bool {
        self.is_raw && self.raw_weak.as_ref().map_or(true, |w| w.strong_count() == 0)
    }
}

pub struct Gate {
    pub open: bool,
    pub opened_at: Option<u64>,
    /// (waiter key, waker): one current waker per waiter
    pub wakers: Vec<(u32, Waker)>,
    pub stale: Vec<(u32, Waker)>,
    pub m: Arc<rt::sync::Mutex<bool>>,
    pub cv: Arc<rt::sync::Condvar>,
}

pub struct StreamState {
    pub items: VecDeque<u32>,
    pub pushed: Vec<u32>,
    pub closed: bool,
    pub waker: Option<Waker>,
    pub stale: Vec<Waker>,
    pub drops: u32,
    pub dropped_at: Option<u64>,
    pub taken: bool,
    pub polls: u32,
    pub closure_drops: u32,
    pub closure_dropped_at: Option<u64>,
    /// (item, start, fin) of processing
    pub processed: Vec<(u32, u64, Option<u64>)>,
    pub obj: Option<usize>,
    pub pipe_op: Option<u32>,
    pub ended_seen: bool,
    pub cancelled_items: u32,
    /// the gate that the item being processed is waiting for (None once it has got past it)
    pub item_waiting_gate: Option<usize>,
}

pub struct OutState {
    pub stream: Option<PipeStream<u64>>,
    pub taken: bool,
    pub src: Option<usize>,
    pub outputs: Vec<u64>,
    pub ended: bool,
    pub dropped_at: Option<u64>,
    pub waiting: Option<TaskId>,
    pub depth: usize,
    /// the depth was changed after the consumer's last successful read (changing the depth notifies nobody: the promise is about reads)
    pub depth_dirty: bool,
}

#[derive(Clone, Debug, serde::Serialize, serde::Deserialize, PartialEq)]
pub struct Violation {
    pub prop: String,
    pub kind: String,
    pub ops: Vec<u32>,
    pub seq: u64,
    pub msg: String,
}

#[derive(Clone, Copy, Debug)]
pub struct Event {
    pub seq: u64,
    pub task: u32,
    pub code: &'static str,
    pub a: i64,
    pub b: i64,
}

pub struct World {
    pub prog: Arc<Program>,
    pub objs: Vec<ObjSlot>,
    pub gates: Vec<Gate>,
    pub streams: Vec<StreamState>,
    pub outs: Vec<OutState>,
    pub handles: Vec<HandleSlot>,
    pub hrec: Vec<HandleRec>,
    pub ops: Vec<OpRec>,
    pub events: Vec<Event>,
    pub violations: Vec<Violation>,
    pub cur_max: usize,
    pub phase: usize,
    /// event stamp at which each phase began
    pub phase_started: Vec<u64>,
    pub faults_stopped: bool,
    pub cover: Cover,
    pub notes: Vec<String>,
    pub spawn_violation: Option<(usize, usize)>,
}

/// reach probes: "this rare condition was hit"
#[derive(Clone, Debug, Default, serde::Serialize, serde::Deserialize)]
pub struct Cover {
    pub self_wakes: u64,
    pub dup_wakes: u64,
    pub stale_wakes: u64,
    pub pokes: u64,
    pub gate_open_before_poll: u64,
    pub gate_pending: u64,
    pub stream_pending: u64,
    pub handle_drops_unresolved: u64,
    pub fsync_drop_before_poll: u64,
    pub fsync_drop_mid: u64,
    pub fsync_drop_waiting_slot: u64,
    pub try_ok: u64,
    pub try_busy: u64,
    pub sync_calls: u64,
    pub ran_on_pool: u64,
    pub ran_on_caller: u64,
    pub ran_on_poller: u64,
    pub suspended_on_pool: u64,
    pub suspended_on_caller: u64,
    pub suspended_on_poller: u64,
    pub state_seen: [u64; 8],
    pub drops_by_caller: u64,
    pub drops_by_pool: u64,
    pub drops_inside_desync: u64,
    pub panics_injected: u64,
    pub panic_on_pool: u64,
    pub panic_on_caller: u64,
    pub calls_on_panicked: u64,
    pub nested_calls: u64,
    pub block_on: u64,
    pub pipe_backpressure: u64,
    pub out_pending: u64,
    pub late_refs: u64,
    pub select_left_waker: u64,
    pub drops_while_panicking: u64,
    pub kept_wakers: u64,
    pub depth_changes: u64,
    pub chained_pipes: u64,
    /// state of the object's queue at the moment each kind of call / event reached it (reach matrix)
    pub at_desync: [u64; 8],
    pub at_sync: [u64; 8],
    pub at_try_sync: [u64; 8],
    pub at_future_desync: [u64; 8],
    pub at_after: [u64; 8],
    pub at_future_sync: [u64; 8],
    pub at_suspend: [u64; 8],
    pub at_pipe_in: [u64; 8],
    pub at_pipe: [u64; 8],
    pub at_poll: [u64; 8],
    pub at_sync_wait: [u64; 8],
    pub at_handle_drop: [u64; 8],
    pub at_event_wake: [u64; 8],
    pub at_stale_wake: [u64; 8],
    pub at_owner_drop: [u64; 8],
    pub at_resume: [u64; 8],
    pub at_stream_wake: [u64; 8],
}

/// Reach matrix: records the state of object `o`'s queue as seen by an event about to act on it.
pub fn cover_at(field: fn(&mut Cover) -> &mut [u64; 8], o: usize) {
    let world = w();
    let st = world.objs.get(o).and_then(|s| s.peek()).map(|p| p.0 as usize);
    if let Some(st) = st {
        field(&mut world.cover)[st.min(7)] += 1;
    }
}

thread_local! {
    static WORLD: UnsafeCell<Option<Box<World>>> = const { UnsafeCell::new(None) };
}

/// The world of the run in progress.  Short borrows only.
#[inline]
pub fn w() -> &'static mut World {
    WORLD.with(|c| unsafe { (*c.get()).as_mut().expect("no world").as_mut() })
}

pub fn install(world: World) {
    // a previous world is leaked on purpose (its objects may belong to an abandoned run)
    WORLD.with(|c| unsafe {
        if let Some(old) = (*c.get()).take() {
            std::mem::forget(old);
        }
        *c.get() = Some(Box::new(world));
    });
}

pub fn take() -> Option<Box<World>> {
    WORLD.with(|c| unsafe { (*c.get()).take() })
}

#[inline]
pub fn seq() -> u64 {
    rt::kernel::next_event_seq()
}

#[inline]
pub fn me() -> TaskId {
    rt::kernel::current()
}

pub fn ev(code: &'static str, a: i64, b: i64) -> u64 {
    if !rt::kernel::in_sim() {
        // leftovers of a finished world being dropped outside it: nothing to record
        return u64::MAX;
    }
    let s = seq();
    let t = me() as u32;
    w().events.push(Event { seq: s, task: t, code, a, b });
    if std::env::var_os("DESIM_TRACE").is_some() {
        let st: Vec<String> = w().objs.iter().map(|o| format!("{:?}", o.peek())).collect();
        eprintln!("#{} task{} {} {} {}   queues {}", s, t, code, a, b, st.join(" "));
    }
    s
}

pub fn violation(prop: &str, kind: &str, ops: &[u32], msg: String) {
    let s = ev("violation", ops.first().map(|&x| x as i64).unwrap_or(-1), 0);
    let world = w();
    if world.violations.len() < 64 {
        world.violations.push(Violation { prop: prop.to_string(), kind: kind.to_string(), ops: ops.to_vec(), seq: s, msg });
    }
}

pub fn token(op: u32) -> u64 {
    TOKEN_BASE + op as u64
}

pub fn kind_of(op: &Op) -> Kind {
    match &op.k {
        OpKind::Desync { .. } => Kind::Desync,
        OpKind::Sync { .. } => Kind::Sync,
        OpKind::TrySync { .. } => Kind::TrySync,
        OpKind::FutureDesync { .. } => Kind::FutureDesync,
        OpKind::After { .. } => Kind::After,
        OpKind::FutureSync { .. } => Kind::FutureSync,
        OpKind::Suspend { .. } => Kind::Suspend,
        OpKind::PipeIn { .. } => Kind::PipeIn,
        OpKind::Pipe { .. } => Kind::Pipe,
        _ => Kind::Other,
    }
}

impl World {
    pub fn new(prog: Arc<Program>) -> World {
        let n_ops = prog.max_op_id() as usize + 1;
        let mut ops: Vec<OpRec> = (0..n_ops)
            .map(|i| OpRec {
                id: i as u32,
                kind: Kind::Other,
                tag: "-",
                obj: None,
                phase: 0,
                thread: None,
                inv: None,
                ret: None,
                outcome: CallOutcome::NotCalled,
                start: None,
                fin: None,
                fin_kind: FinKind::None,
                starts: 0,
                closure_drops: 0,
                closure_drop_at: None,
                runner: None,
                runner_pool: false,
                blocks_in_call: 0,
                blocks_inside: 0,
                handle: None,
                waiting_gate: None,
                waiting_gate_alt: None,
                nested_in: None,
                injects_panic: false,
                blocking_steps: false,
                state_at_inv: None,
            })
            .collect();
        fn fill(ops: &mut Vec<OpRec>, op: &Op, phase: usize, parent: Option<u32>) {
            let r = &mut ops[op.id as usize];
            r.kind = kind_of(op);
            r.tag = op.tag();
            r.obj = op.obj();
            r.phase = phase;
            r.nested_in = parent;
            r.handle = match &op.k {
                OpKind::FutureDesync { h, .. } | OpKind::After { h, .. } | OpKind::FutureSync { h, .. } | OpKind::Suspend { h, .. } => Some(*h).filter(|h| *h != usize::MAX),
                _ => None,
            };
            if let Some(b) = op.body() {
                for s in b {
                    match s {
                        Step::Panic => ops[op.id as usize].injects_panic = true,
                        Step::BlockOn(_) | Step::AwaitGate(_) | Step::AwaitAny(_, _) => ops[op.id as usize].blocking_steps = true,
                        Step::Nested(n) => fill(ops, n, phase, Some(op.id)),
                        _ => {}
                    }
                }
            }
        }
        for (pi, ph) in prog.phases.iter().enumerate() {
            for t in &ph.threads {
                for op in t {
                    fill(&mut ops, op, pi, None);
                }
            }
            for op in ph.env_gates.iter().chain(ph.env_streams.iter()) {
                fill(&mut ops, op, pi, None);
            }
        }
        let mk_h = || HandleRec {
            op: None,
            kind: Kind::Other,
            created_at: None,
            first_poll: None,
            polls: 0,
            resolved_at: None,
            value: None,
            dropped_at: None,
            awaiting: None,
            await_started: None,
            wakes: 0,
            panicked: None,
            panicked_at: None,
            resumed_at: None,
            sync_wait: false,
        };
        World {
            objs: (0..prog.n_objs)
                .map(|_| ObjSlot {
                    arc: None,
                    weak: None,
                    queue: None,
                    occupant: None,
                    value_drops: 0,
                    value_dropped_at: None,
                    drop_inv: None,
                    drop_ret: None,
                    dropper: None,
                    panic_injected: false,
                    panic_at: None,
                    chain: 0,
                    log: vec![],
                    table_dropped_at: None,
                    saw_busy: false,
                    suspended_at: None,
                    resumed_at: None,
                    is_raw: false,
                    raw: None,
                    raw_weak: None,
                    raw_val: 0,
                })
                .collect(),
            gates: (0..prog.n_gates)
                .map(|_| Gate { open: false, opened_at: None, wakers: vec![], stale: vec![], m: Arc::new(rt::sync::Mutex::new(false)), cv: Arc::new(rt::sync::Condvar::new()) })
                .collect(),
            streams: (0..prog.n_streams)
                .map(|_| StreamState {
                    items: VecDeque::new(),
                    pushed: vec![],
                    closed: false,
                    waker: None,
                    stale: vec![],
                    drops: 0,
                    dropped_at: None,
                    taken: false,
                    polls: 0,
                    closure_drops: 0,
                    closure_dropped_at: None,
                    processed: vec![],
                    obj: None,
                    pipe_op: None,
                    ended_seen: false,
                    cancelled_items: 0,
                    item_waiting_gate: None,
                })
                .collect(),
            outs: (0..prog.n_outs).map(|_| OutState { stream: None, taken: false, src: None, outputs: vec![], ended: false, dropped_at: None, waiting: None, depth: 5, depth_dirty: false }).collect(),
            handles: (0..prog.n_handles).map(|_| HandleSlot::Empty).collect(),
            hrec: (0..prog.n_handles).map(|_| mk_h()).collect(),
            ops,
            events: Vec::with_capacity(256),
            violations: vec![],
            cur_max: prog.pool_max,
            phase: 0,
            phase_started: vec![],
            faults_stopped: false,
            cover: Cover::default(),
            notes: vec![],
            spawn_violation: None,
            prog,
        }
    }
}

// ---- the protected value -----------------------------------------------------------

pub struct Val {
    pub o: usize,
    pub occupant: Option<u32>,
    pub chain: u64,
    pub log: Vec<u32>,
}

impl Drop for Val {
    fn drop(&mut self) {
        if !rt::kernel::in_sim() {
            return;
        }
        let s = ev("value_dropped", self.o as i64, 0);
        let world = w();
        let slot = &mut world.objs[self.o];
        slot.value_drops += 1;
        if slot.value_dropped_at.is_none() {
            slot.value_dropped_at = Some(s);
        }
        slot.chain = self.chain;
        slot.log = std::mem::take(&mut self.log);
        if let Some(occ) = self.occupant {
            let o = self.o;
            violation("C05", "value_destroyed_while_occupied", &[occ], format!("value of object {} destroyed while operation {} was inside", o, occ));
            violation("C14", "value_freed_while_borrowed", &[occ], format!("value of object {} freed while operation {} still holds &mut T to it", o, occ));
        }
    }
}

pub fn chain_mix(c: u64, op: u32) -> u64 {
    rt::strategy::mix(c, op as u64 + 0x51)
}

/// Dropped together with the closure that captured it.
pub struct Probe(pub u32);

impl Drop for Probe {
    fn drop(&mut self) {
        if !rt::kernel::in_sim() {
            return;
        }
        let s = ev("closure_dropped", self.0 as i64, 0);
        let r = &mut w().ops[self.0 as usize];
        r.closure_drops += 1;
        if r.closure_drop_at.is_none() {
            r.closure_drop_at = Some(s);
        }
    }
}

// ---- wakers --------------------------------------------------------------------------

/// Waker of a harness task blocked in `sim_block_on`: unparks it.
pub struct TaskWaker {
    pub thread: rt::thread::Thread,
    pub handle: Option<usize>,
}

impl ArcWake for TaskWaker {
    fn wake_by_ref(arc_self: &Arc<Self>) {
        if let Some(h) = arc_self.handle {
            let world = w();
            if h < world.hrec.len() {
                world.hrec[h].wakes += 1;
            }
        }
        arc_self.thread.unpark();
    }
}

/// Waker handed out by single polls (`PollOnce`, `PollNext`): like `now_or_never`, it wakes nobody.  Whoever waits
/// later with a real waker must be woken through that one, not through this stale one.
pub struct FlagWaker {
    pub handle: Option<usize>,
}

impl ArcWake for FlagWaker {
    fn wake_by_ref(arc_self: &Arc<Self>) {
        if !rt::kernel::in_sim() {
            return;
        }
        if let Some(h) = arc_self.handle {
            let world = w();
            if h < world.hrec.len() {
                world.hrec[h].wakes += 1;
            }
        }
    }
}

pub fn flag_waker(handle: Option<usize>) -> Waker {
    futures::task::waker(Arc::new(FlagWaker { handle }))
}

pub fn task_waker(handle: Option<usize>) -> Waker {
    futures::task::waker(Arc::new(TaskWaker { thread: rt::thread::current(), handle }))
}

// ---- gates ------------------------------------------------------------------------------

/// One poll of a gate by waiter `key`.  Check-and-register is atomic (a correct event source);
/// the scheduling points around it let the opening land anywhere relative to the poll.
pub fn gate_poll(g: usize, key: u32, cx: &mut std::task::Context<'_>) -> std::task::Poll<()> {
    rt::kernel::point();
    let world = w();
    if world.gates[g].open {
        return std::task::Poll::Ready(());
    }
    world.cover.gate_pending += 1;
    let waker = cx.waker().clone();
    let gate = &mut world.gates[g];
    if let Some(pos) = gate.wakers.iter().position(|(k, _)| *k == key) {
        let (_, old) = gate.wakers.remove(pos);
        if gate.stale.len() < 8 {
            gate.stale.push((key, old));
        }
    }
    gate.wakers.push((key, waker));
    let p = world.prog.faults.self_wake_permille;
    if p > 0 && rt::kernel::coin(p) {
        // F4: the event source wakes the task before `poll` has even returned
        w().cover.self_wakes += 1;
        cx.waker().wake_by_ref();
    }
    rt::kernel::point();
    std::task::Poll::Pending
}

pub fn gate_open(g: usize) {
    rt::kernel::point();
    let s = ev("gate_open", g as i64, 0);
    let world = w();
    if g >= world.gates.len() {
        return;
    }
    let gate = &mut world.gates[g];
    let was_open = gate.open;
    gate.open = true;
    if gate.opened_at.is_none() {
        gate.opened_at = Some(s);
    }
    let wakers = std::mem::take(&mut gate.wakers);
    let (m, cv) = (gate.m.clone(), gate.cv.clone());
    let dup = world.prog.faults.dup_wake_permille;
    for (key, wk) in wakers {
        if let Some(o) = w().ops.get(key as usize).and_then(|r| r.obj) {
            cover_at(|c| &mut c.at_event_wake, o);
        }
        if dup > 0 && rt::kernel::coin(dup) {
            w().cover.dup_wakes += 1;
            wk.wake_by_ref();
        }
        wk.wake();
    }
    if !was_open {
        *m.lock().unwrap() = true;
        cv.notify_all();
    }
}

pub fn gate_poke(g: usize) {
    rt::kernel::point();
    let world = w();
    if g >= world.gates.len() {
        return;
    }
    world.cover.pokes += 1;
    rt::kernel::note_fault();
    let wakers: Vec<Waker> = world.gates[g].wakers.iter().map(|(_, wk)| wk.clone()).collect();
    for wk in wakers {
        wk.wake();
    }
}

pub fn gate_wake_stale(g: usize) {
    rt::kernel::point();
    let world = w();
    if g >= world.gates.len() {
        return;
    }
    let wakers = std::mem::take(&mut world.gates[g].stale);
    for (key, wk) in wakers {
        if let Some(o) = w().ops.get(key as usize).and_then(|r| r.obj) {
            cover_at(|c| &mut c.at_stale_wake, o);
        }
        w().cover.stale_wakes += 1;
        rt::kernel::note_fault();
        ev("stale_wake", g as i64, 0);
        wk.wake();
        ev("stale_wake_done", g as i64, 0);
    }
}

pub fn gate_block_on(g: usize) {
    let (m, cv) = {
        let gate = &w().gates[g];
        (gate.m.clone(), gate.cv.clone())
    };
    w().cover.block_on += 1;
    let mut open = m.lock().unwrap();
    while !*open {
        open = cv.wait(open).unwrap();
    }
}

// ---- streams ------------------------------------------------------------------------------

pub struct SimStream {
    pub s: usize,
}

impl Drop for SimStream {
    fn drop(&mut self) {
        if !rt::kernel::in_sim() {
            return;
        }
        let sq = ev("stream_dropped", self.s as i64, 0);
        let st = &mut w().streams[self.s];
        st.drops += 1;
        if st.dropped_at.is_none() {
            st.dropped_at = Some(sq);
        }
    }
}

impl futures::Stream for SimStream {
    type Item = u32;
    fn poll_next(self: Pin<&mut Self>, cx: &mut std::task::Context<'_>) -> std::task::Poll<Option<u32>> {
        if w().prog.mark_on_stream_poll == Some(self.s) {
            rt::kernel::sweep_mark();
        }
        rt::kernel::point();
        let world = w();
        let st = &mut world.streams[self.s];
        st.polls += 1;
        if let Some(i) = st.items.pop_front() {
            // a merged stream: an arm that is not ready has registered the waker although another arm delivers an item
            let p = world.prog.faults.keep_waker_permille;
            if p > 0 && !st.closed && (p >= 1000 || rt::kernel::coin(p)) {
                let st = &mut w().streams[self.s];
                if let Some(old) = st.waker.replace(cx.waker().clone()) {
                    if st.stale.len() < 8 {
                        st.stale.push(old);
                    }
                }
                w().cover.kept_wakers += 1;
            }
            return std::task::Poll::Ready(Some(i));
        }
        if st.closed {
            st.ended_seen = true;
            return std::task::Poll::Ready(None);
        }
        if let Some(old) = st.waker.replace(cx.waker().clone()) {
            if st.stale.len() < 8 {
                st.stale.push(old);
            }
        }
        world.cover.stream_pending += 1;
        let p = world.prog.faults.self_wake_permille;
        if p > 0 && rt::kernel::coin(p) {
            w().cover.self_wakes += 1;
            cx.waker().wake_by_ref();
        }
        rt::kernel::point();
        std::task::Poll::Pending
    }
}

pub fn stream_push(s: usize, item: u32) {
    rt::kernel::point();
    ev("push", s as i64, item as i64);
    let world = w();
    if s >= world.streams.len() || world.streams[s].closed {
        return;
    }
    let st = &mut world.streams[s];
    st.items.push_back(item);
    st.pushed.push(item);
    let wk = st.waker.take();
    let target = st.obj;
    let dup = world.prog.faults.dup_wake_permille;
    if let Some(wk) = wk {
        if let Some(o) = target {
            cover_at(|c| &mut c.at_stream_wake, o);
        }
        if dup > 0 && rt::kernel::coin(dup) {
            w().cover.dup_wakes += 1;
            wk.wake_by_ref();
        }
        wk.wake();
    }
}

pub fn stream_close(s: usize) {
    rt::kernel::point();
    ev("close", s as i64, 0);
    let world = w();
    if s >= world.streams.len() {
        return;
    }
    let st = &mut world.streams[s];
    st.closed = true;
    let target = st.obj;
    if let Some(wk) = st.waker.take() {
        if let Some(o) = target {
            cover_at(|c| &mut c.at_stream_wake, o);
        }
        wk.wake();
    }
}

pub fn stream_wake_stale(s: usize) {
    rt::kernel::point();
    let world = w();
    let wakers = std::mem::take(&mut world.streams[s].stale);
    for wk in wakers {
        w().cover.stale_wakes += 1;
        rt::kernel::note_fault();
        wk.wake();
    }
}
