//! Oracles: checks over the recorded history of one run, against the reference model
//! "each object is a sequential FIFO executor".  Every violation names the property it breaks.

use crate::interp::{out_value, PIPE_ITEM_FLAG};
use crate::ir::*;
use crate::sim::{RunReport, Stage};
use crate::world::*;
use desync_verif_rt::kernel::{Outcome, TState, Wait};

pub struct Verdict {
    pub violations: Vec<Violation>,
    pub inconclusive: bool,
    pub harness_error: Option<String>,
    pub hung: bool,
    pub ambiguous_hang: bool,
}

fn v(out: &mut Vec<Violation>, prop: &str, kind: &str, ops: &[u32], seq: u64, msg: String) {
    out.push(Violation { prop: prop.to_string(), kind: kind.to_string(), ops: ops.to_vec(), seq, msg });
}

fn accepted(r: &OpRec) -> bool {
    match (&r.outcome, r.kind) {
        (CallOutcome::Returned(_), _) => true,
        // a sync that is still in its call has been issued; its place in the order is not fixed yet
        _ => false,
    }
}

fn min_pool(prog: &Program) -> usize {
    let mut m = prog.pool_max;
    for ph in &prog.phases {
        for c in &ph.ctl {
            match c {
                CtlOp::SetMaxLazy(n) | CtlOp::SetMaxEager(n) => m = m.min(*n),
                _ => {}
            }
        }
    }
    m
}

/// operations with which a context waits for a future (as opposed to polling it once and walking away)
fn has_polling_ops(prog: &Program) -> bool {
    let mut f = false;
    prog.for_each_op(&mut |op| {
        if matches!(op.k, OpKind::Await { .. } | OpKind::SyncWait { .. } | OpKind::FutureSync { .. } | OpKind::Suspend { .. } | OpKind::PipeIn { .. } | OpKind::Pipe { .. } | OpKind::Next { .. } | OpKind::PollNext { .. }) {
            f = true
        }
    });
    f
}

/// What the library promises to finish on its own in this configuration.
#[derive(Clone, Copy, PartialEq, Debug)]
pub enum Live {
    /// at least one pool thread allowed throughout: everything completes
    Full,
    /// no pool thread, only closures (no polled futures): every sync caller returns, background work needs a caller
    SyncOnly,
    /// no pool thread, one context: whatever that context waits for completes
    SingleContext,
    /// nothing is promised
    None,
}

pub fn liveness_mode(prog: &Program) -> Live {
    if min_pool(prog) >= 1 {
        return Live::Full;
    }
    let single = prog.phases.iter().all(|p| p.threads.len() <= 1 && p.env_streams.is_empty());
    // with no pool thread a suspended queue is only ever run again by whoever resumes it and then
    // polls or syncs: a context that awaits something else while it holds the resumer waits for ever
    let mut suspend_shape_ok = true;
    for ph in &prog.phases {
        for t in &ph.threads {
            let mut suspends: Vec<usize> = vec![];
            for (i, op) in t.iter().enumerate() {
                if let OpKind::Suspend { h, .. } = &op.k {
                    suspends.push(*h);
                    let _ = i;
                }
            }
            for h in suspends {
                let await_pos = t.iter().position(|op| matches!(&op.k, OpKind::Await { h: hh } if *hh == h));
                match await_pos {
                    Some(p) => {
                        let next_ok = t.get(p + 1).map_or(false, |op| matches!(&op.k, OpKind::Resume { h: hh } | OpKind::DropResumer { h: hh } if *hh == h));
                        if !next_ok {
                            suspend_shape_ok = false;
                        }
                    }
                    None => {
                        // never awaited: only fine if it is dropped unpolled
                        if t.iter().any(|op| matches!(&op.k, OpKind::PollOnce { h: hh } if *hh == h)) {
                            suspend_shape_ok = false;
                        }
                    }
                }
            }
        }
    }
    if !suspend_shape_ok {
        return Live::None;
    }
    if !has_polling_ops(prog) {
        Live::SyncOnly
    } else if single {
        Live::SingleContext
    } else {
        Live::None
    }
}

/// Is a sync caller that sleeps on a claimable queue actually owed progress?  Only if nothing it may be queued
/// behind is legitimately unfinished: every other accepted operation on the object has finished, was cancelled, or is
/// inside the object with its event already fired (running the queue would complete it).
pub fn sync_is_owed_progress(world: &World, r: &OpRec) -> bool {
    let Some(o) = r.obj else { return false };
    // a suspension that has not been released yet legitimately holds everything behind it
    let held = world.ops.iter().filter(|x| x.obj == Some(o) && x.kind == Kind::Suspend && matches!(x.outcome, CallOutcome::Returned(_))).any(|x| {
        let Some(h) = x.handle else { return true };
        let hr = &world.hrec[h];
        !(hr.resumed_at.is_some() || (hr.dropped_at.is_some() && hr.resolved_at.is_none()))
    });
    if held {
        return false;
    }
    // an item that a pipe into the object is still processing (its processing future waits for an event of its own) is work ahead
    // of the caller as well
    if world.streams.iter().any(|st| st.obj == Some(o) && st.processed.iter().any(|p| p.2.is_none())) {
        return false;
    }
    world.ops.iter().filter(|x| x.id != r.id && x.obj == Some(o) && x.kind.ordered() && matches!(x.outcome, CallOutcome::Returned(_))).all(|x| {
        if x.fin.is_some() {
            return true;
        }
        if x.kind == Kind::FutureSync {
            // its slot is released once its future has gone
            return x.handle.map_or(false, |h| world.hrec[h].dropped_at.is_some());
        }
        x.start.is_some() && x.waiting_gate.map_or(false, |g| world.gates[g].open || x.waiting_gate_alt.map_or(false, |g2| world.gates[g2].open))
    })
}

pub fn analyse(rep: &RunReport) -> Verdict {
    let world = &*rep.world;
    let facts = &rep.facts;
    let prog = &*world.prog;
    let mut out: Vec<Violation> = world.violations.clone();
    let mut verdict = Verdict { violations: vec![], inconclusive: false, harness_error: None, hung: false, ambiguous_hang: false };

    // harness threads must never panic on their own
    for t in &rep.result.tasks {
        if (t.name.starts_with('t') || t.name.starts_with("env") || t.name == "controller") && t.panics > 0 {
            let msg = t.last_panic.clone().unwrap_or_default();
            if !msg.contains("injected panic") {
                // panics that escape an API call are caught per call; anything else is ours
                if t.state == TState::Finished && !msg.is_empty() && rep.result.outcome == Outcome::Completed {
                    // caught and recorded by the interpreter (call outcome Panicked): fine
                } else if t.name == "controller" && t.state == TState::Finished && rep.facts.stage != Some(Stage::Done) && rep.facts.abandoned.is_none() && !rep.facts.hung {
                    verdict.harness_error = Some(format!("controller ended early at {:?}: {}", rep.facts.stage, msg));
                }
            }
        }
    }

    if rep.result.outcome == Outcome::StepCap {
        verdict.inconclusive = true;
        // A run of a handful of operations that burns tens of thousands of scheduling points is a livelock: if one task
        // spent most of them inside a single API call, that call never returns (it spins instead of blocking).
        let cap = rep.result.counters.steps;
        // ... unless the harness kept the spinning going itself: futures that wake themselves on every poll, spurious
        // returns and stray wake-ups make a runner poll again legitimately, so only the part of the run after the
        // last injected fault counts, and it has to be at least half of the budget
        let quiet = cap.saturating_sub(rep.result.counters.last_fault_step);
        for t in rep.result.tasks.iter().filter(|t| t.points * 10 >= cap * 6 && quiet * 2 >= cap) {
            let call = world.ops.iter().find(|r| r.thread == Some(t.id) && r.outcome == CallOutcome::InCall);
            let awaiting = world.hrec.iter().position(|h| h.awaiting == Some(t.id));
            let dropping = world.objs.iter().position(|o| o.dropper == Some(t.id) && o.drop_inv.is_some() && o.drop_ret.is_none());
            if let Some(r) = call {
                let prop = match r.kind {
                    Kind::Sync => "C04",
                    Kind::TrySync => "C09",
                    Kind::PipeIn => "C11",
                    Kind::Pipe => "C12",
                    _ => "C03",
                };
                v(&mut out, prop, "call_spins_for_ever", &[r.id], r.inv.unwrap_or(0), format!("{} {} never returned: task {} used {} of the run's {} scheduling points inside the call (livelock)", r.tag, r.id, t.id, t.points, cap));
                verdict.inconclusive = false;
            } else if let Some(h) = awaiting {
                let hr = &world.hrec[h];
                let prop = if hr.kind == Kind::FutureSync { "C08" } else if hr.kind == Kind::Suspend { "C13" } else { "C07" };
                v(&mut out, prop, "await_spins_for_ever", &hr.op.map(|o| vec![o]).unwrap_or_default(), 0, format!("waiting for handle {} never ended: task {} used {} of the run's {} scheduling points inside it (livelock)", h, t.id, t.points, cap));
                verdict.inconclusive = false;
            } else if let Some(o) = dropping {
                v(&mut out, "C05", "drop_spins_for_ever", &[], 0, format!("dropping object {} never returned: task {} used {} of the run's {} scheduling points inside the drop (livelock)", o, t.id, t.points, cap));
                verdict.inconclusive = false;
            }
        }
    }

    // A pool thread that burns the budget: it keeps polling an operation that is legitimately waiting for its event instead
    // of parking the queue and going back to the pool.  Nothing wrong is ever computed, but the thread is lost to every other
    // object for as long as the wait lasts: whatever was accepted on an object the program never blocks and is still not
    // finished has been kept waiting by somebody else's suspended operation (C10).
    if rep.result.outcome == Outcome::StepCap && !prog.blocked_objs.is_empty() {
        let cap = rep.result.counters.steps;
        let quiet = cap.saturating_sub(rep.result.counters.last_fault_step);
        let pool_points: u64 = rep.result.tasks.iter().filter(|t| t.name == "desync jobs thread").map(|t| t.points).sum();
        if quiet * 2 >= cap && pool_points * 10 >= cap * 6 {
            let spinning_on: Vec<u32> = world.ops.iter().filter(|r| r.start.is_some() && r.fin.is_none() && r.obj.map_or(false, |o| prog.blocked_objs.contains(&o))).map(|r| r.id).collect();
            for r in world.ops.iter() {
                let Some(o) = r.obj else { continue };
                if prog.blocked_objs.contains(&o) || r.fin.is_some() || r.kind == Kind::FutureSync || !r.kind.has_body() {
                    continue;
                }
                if matches!(r.outcome, CallOutcome::Returned(_) | CallOutcome::InCall) {
                    v(&mut out, "C10", "pool_thread_spins_on_suspended_object", &[r.id], r.inv.unwrap_or(0), format!("{} {} on object {} was never served: the pool's threads used {} of the run's {} scheduling points polling suspended operations {:?} of the blocked objects {:?} instead of parking them (pool maximum {})", r.tag, r.id, o, pool_points, cap, spinning_on, prog.blocked_objs, prog.pool_max));
                    verdict.inconclusive = false;
                }
            }
        }
    }

    let ops = &world.ops;
    let live = liveness_mode(prog);
    let panicked_obj = |o: Option<usize>| o.map_or(false, |o| world.objs[o].panic_injected);

    // ---- R1 / C01: no two operations inside one object at the same time (post-hoc, by intervals)
    for o in 0..world.objs.len() {
        let mut iv: Vec<(u64, Option<u64>, u32)> = ops.iter().filter(|r| r.obj == Some(o) && r.kind.has_body()).filter_map(|r| r.start.map(|s| (s, r.fin, r.id))).collect();
        for st in world.streams.iter().filter(|s| s.obj == Some(o)) {
            for (item, s, f) in &st.processed {
                iv.push((*s, *f, PIPE_ITEM_FLAG | *item));
            }
        }
        iv.sort();
        for wdw in iv.windows(2) {
            let (a, b) = (&wdw[0], &wdw[1]);
            let overlap = match a.1 {
                Some(f) => f > b.0,
                None => true,
            };
            if overlap {
                let pipe_involved = (a.2 | b.2) & PIPE_ITEM_FLAG != 0;
                v(&mut out, "C01", "overlap", &[b.2, a.2], b.0, format!("operations {} and {} were inside object {} at the same time", a.2, b.2, o));
                if pipe_involved {
                    v(&mut out, "C11", "item_not_exclusive", &[b.2, a.2], b.0, format!("pipe item processing overlapped another operation on object {}", o));
                }
                for id in [a.2, b.2] {
                    if id & PIPE_ITEM_FLAG == 0 && ops[id as usize].kind == Kind::TrySync {
                        v(&mut out, "C09", "try_sync_not_exclusive", &[id, if id == a.2 { b.2 } else { a.2 }], b.0, format!("try_sync {} ran its closure while another operation was inside object {}", id, o));
                    }
                }
                if a.2 & PIPE_ITEM_FLAG == 0 && ops[a.2 as usize].kind == Kind::FutureSync {
                    // the earlier operation is a future_sync: if its future had been dropped, cancellation was not clean
                    let ra = &ops[a.2 as usize];
                    let dropped = ra.handle.and_then(|h| world.hrec[h].dropped_at);
                    if dropped.map_or(false, |d| a.1.map_or(true, |f| f > d)) {
                        v(&mut out, "C08", "cancelled_future_outlived_its_slot", &[a.2, b.2], b.0, format!("future_sync {} was dropped mid-operation, but operation {} started on object {} before its future had been destroyed", a.2, b.2, o));
                        // ... and that future holds the `&mut T` it was created with: two live mutable borrows of the value
                        v(&mut out, "C14", "cancelled_future_still_borrowed_the_value", &[a.2, b.2], b.0, format!("the future of future_sync {} (which borrows the value of object {} mutably) was still alive when operation {} was given the value", a.2, o, b.2));
                    }
                }
            }
        }
        // data-level cross-check: the value's own chain must equal the chain recomputed from its log
        let slot = &world.objs[o];
        if slot.value_drops == 1 && !slot.panic_injected {
            let mut c = 0u64;
            for &k in &slot.log {
                c = chain_mix(c, k);
            }
            if c != slot.chain {
                v(&mut out, "C01", "lost_update", &[], slot.value_dropped_at.unwrap_or(0), format!("object {}: value chain differs from the chain recomputed from its log (an update was lost: two operations held &mut T together)", o));
            }
        }
    }

    // ---- R2 / C02: real-time order of scheduling calls is the execution order
    for a in ops.iter().filter(|r| r.kind.ordered() && accepted(r)) {
        let (Some(ra), Some(o)) = (a.ret, a.obj) else { continue };
        if a.kind == Kind::TrySync && !matches!(a.outcome, CallOutcome::Returned(_)) {
            continue;
        }
        for b in ops.iter().filter(|r| r.obj == Some(o) && r.kind.ordered() && r.id != a.id) {
            let (Some(ib), Some(sb)) = (b.inv, b.start) else { continue };
            if ra < ib {
                // a was scheduled strictly before b was even called, and b has started
                let a_cancelled_unstarted = a.kind == Kind::FutureSync && a.start.is_none();
                if a_cancelled_unstarted {
                    continue;
                }
                match a.fin {
                    Some(fa) if fa < sb => {}
                    _ => {
                        if panicked_obj(Some(o)) {
                            continue;
                        }
                        v(&mut out, "C02", "order", &[a.id, b.id], sb, format!("{} {} returned before {} {} was called on object {}, but {} started before {} had finished", a.tag, a.id, b.tag, b.id, o, b.id, a.id));
                        if b.kind == Kind::TrySync {
                            v(&mut out, "C09", "try_sync_out_of_order", &[b.id, a.id], sb, format!("try_sync {} ran although {} {} scheduled earlier on object {} had not finished", b.id, a.tag, a.id, o));
                        }
                    }
                }
            }
        }
    }

    // ---- per-call checks
    for r in ops.iter() {
        match r.kind {
            Kind::Sync | Kind::TrySync => {
                let prop = if r.kind == Kind::Sync { "C04" } else { "C09" };
                if let (Some(inv), Some(ret)) = (r.inv, r.ret) {
                    match &r.outcome {
                        CallOutcome::Returned(Some(val)) => {
                            if *val != token(r.id) {
                                v(&mut out, prop, "wrong_value", &[r.id], ret, format!("{} {} returned {} instead of its own closure's value {}", r.tag, r.id, val, token(r.id)));
                            }
                            if r.starts != 1 {
                                v(&mut out, prop, "run_count", &[r.id], ret, format!("{} {} returned but its closure ran {} times", r.tag, r.id, r.starts));
                            }
                            if let (Some(s), Some(f)) = (r.start, r.fin) {
                                if !(inv < s && f < ret) {
                                    v(&mut out, prop, "ran_outside_call", &[r.id], ret, format!("{} {} ran outside its call", r.tag, r.id));
                                }
                            }
                        }
                        CallOutcome::Busy => {
                            if r.starts != 0 {
                                v(&mut out, "C09", "busy_but_ran", &[r.id], ret, format!("try_sync {} returned Busy but its closure ran", r.id));
                            }
                            // Busy on an object that had nothing queued or in progress: its queue was idle and empty just before the call
                            // and nothing else was scheduled on it, nor was it released, while the call lasted
                            if let (Some(o), Some((0, 0))) = (r.obj, r.state_at_inv) {
                                // (anything invoked before this call returned that had not run to its end, or whose call had not yet returned, when this call was made:
                                // a sync caller on its way out may still claim and release the queue once more)
                                let disturbed = ops.iter().any(|x| x.id != r.id && x.obj == Some(o) && x.inv.map_or(false, |i| i < ret) && (x.fin.map_or(true, |f| f > inv) || x.ret.map_or(true, |rr| rr > inv)) && x.outcome != CallOutcome::Skipped)
                                    || world.hrec.iter().any(|h| h.op.map_or(false, |id| ops[id as usize].obj == Some(o)) && h.created_at.map_or(false, |c| c < ret) && h.dropped_at.map_or(true, |d| d > inv))
                                    || world.streams.iter().any(|st| st.obj == Some(o))
                                    || world.objs[o].drop_inv.map_or(false, |d| d < ret)
                                    || world.objs[o].table_dropped_at.map_or(false, |d| d < ret);
                                if !disturbed && !panicked_obj(r.obj) {
                                    v(&mut out, "C09", "busy_on_idle_object", &[r.id], ret, format!("try_sync {} returned Busy although the queue of object {} was idle and empty when the call was made and nothing else was scheduled on it during the call", r.id, o));
                                }
                            }
                        }
                        CallOutcome::Panicked(m) => {
                            if !panicked_obj(r.obj) && !r.injects_panic {
                                v(&mut out, prop, "unexpected_panic", &[r.id], ret, format!("{} {} panicked: {}", r.tag, r.id, m));
                            }
                        }
                        _ => {}
                    }
                    // borrowed closure: never touched after the call has ended
                    if let Some(s) = r.start {
                        if s > ret {
                            v(&mut out, "C14", "closure_run_after_call", &[r.id], s, format!("closure of {} {} was invoked after the call had returned", r.tag, r.id));
                        }
                    }
                    if let Some(d) = r.closure_drop_at {
                        if d > ret {
                            v(&mut out, "C14", "closure_outlived_call", &[r.id], d, format!("closure of {} {} was dropped after the call had returned", r.tag, r.id));
                        }
                    } else if matches!(r.outcome, CallOutcome::Returned(_) | CallOutcome::Busy) {
                        v(&mut out, "C14", "closure_outlived_call", &[r.id], ret, format!("closure of {} {} was still alive when the call returned", r.tag, r.id));
                    }
                    if r.kind == Kind::TrySync && r.blocks_in_call > r.blocks_inside {
                        v(&mut out, "C09", "blocked", &[r.id], ret, format!("try_sync {} waited {} times (condvar wait / park) inside the call, outside its closure", r.id, r.blocks_in_call - r.blocks_inside));
                    }
                }
            }
            Kind::Desync | Kind::FutureDesync | Kind::After | Kind::FutureSync => {
                if let CallOutcome::Panicked(m) = &r.outcome {
                    if !panicked_obj(r.obj) {
                        v(&mut out, "C03", "schedule_call_panicked", &[r.id], r.ret.unwrap_or(0), format!("{} {} panicked while scheduling: {}", r.tag, r.id, m));
                    }
                }
            }
            _ => {}
        }
        // what an operation captured (closure, future, anything that borrows the value) is destroyed before the next operation on the
        // object starts: its slot is not released while any of it is alive
        // (a `Desync` promises this for the `&mut T` it hands out; at the bare-queue level `future_sync` destroys the caller's future after
        // the slot has been released, and no borrow is involved there)
        if r.kind.has_body() && r.fin_kind == FinKind::Normal && !panicked_obj(r.obj) && r.obj.map_or(false, |o| !world.objs[o].is_raw) {
            if let (Some(f), Some(d), Some(o)) = (r.fin, r.closure_drop_at, r.obj) {
                if let Some(y) = ops.iter().filter(|y| y.id != r.id && y.obj == Some(o) && y.kind.has_body() && y.start.map_or(false, |s| s > f && s < d)).min_by_key(|y| y.start) {
                    v(&mut out, "C14", "operation_state_outlived_its_slot", &[r.id, y.id], y.start.unwrap_or(0), format!("{} {} on object {} had finished, but what it had captured was destroyed only after {} {} had started on the same object", r.tag, r.id, o, y.tag, y.id));
                    if r.kind == Kind::FutureSync {
                        v(&mut out, "C08", "future_outlived_its_slot", &[r.id, y.id], y.start.unwrap_or(0), format!("the future of future_sync {} was destroyed only after {} {} had started on object {}", r.id, y.tag, y.id, o));
                    }
                }
            }
        }
        // accepted background work whose closure was thrown away without ever being invoked: the operation was lost
        if r.kind.background() && matches!(r.outcome, CallOutcome::Returned(_)) && r.starts == 0 && r.closure_drops > 0 && !panicked_obj(r.obj) && rep.result.outcome != Outcome::Aborted {
            let o = r.obj.unwrap_or(0);
            let gone = world.objs[o].raw_queue_gone();
            v(&mut out, "C03", "operation_dropped_unrun", &[r.id], r.closure_drop_at.unwrap_or(0), format!("{} {} on object {} was accepted but its closure was destroyed without ever running{}", r.tag, r.id, o, if gone { " (the queue was freed with the operation still on it)" } else { "" }));
        }
        if r.closure_drops > 1 {
            v(&mut out, "C14", "closure_dropped_twice", &[r.id], r.closure_drop_at.unwrap_or(0), format!("closure of {} {} was dropped {} times", r.tag, r.id, r.closure_drops));
        }
    }

    // ---- handles: C07 / C08
    for (h, hr) in world.hrec.iter().enumerate() {
        let Some(opid) = hr.op else { continue };
        let r = &ops[opid as usize];
        let prop = match hr.kind {
            Kind::FutureSync => "C08",
            Kind::FutureDesync | Kind::After => "C07",
            _ => continue,
        };
        if let (Some(at), Some(val)) = (hr.resolved_at, &hr.value) {
            match val {
                Ok(x) => {
                    if *x != token(opid) {
                        v(&mut out, prop, "wrong_value", &[opid], at, format!("future of {} {} resolved to {} instead of {}", r.tag, opid, x, token(opid)));
                    }
                    match r.fin {
                        Some(f) if f < at && r.fin_kind == FinKind::Normal => {}
                        _ => v(&mut out, prop, "resolved_before_finished", &[opid], at, format!("future of {} {} resolved before its operation had finished", r.tag, opid)),
                    }
                }
                Err(()) => {
                    if !panicked_obj(r.obj) {
                        v(&mut out, prop, "unexpected_cancel", &[opid], at, format!("future of {} {} resolved to Canceled", r.tag, opid));
                    }
                }
            }
        }
        if let Some(m) = &hr.panicked {
            if !panicked_obj(r.obj) {
                v(&mut out, prop, "poll_panicked", &[opid], 0, format!("polling the future of {} {} panicked: {}", r.tag, opid, m));
            }
        }
        if hr.kind == Kind::FutureSync {
            if let Some(s) = r.start {
                match hr.first_poll {
                    Some(p) if p < s => {}
                    _ => v(&mut out, "C08", "ran_without_poll", &[opid], s, format!("future_sync {} started although its future had not been polled", opid)),
                }
                if let Some(d) = hr.dropped_at {
                    if s > d {
                        v(&mut out, "C08", "started_after_drop", &[opid], s, format!("future_sync {} started after its future had been dropped", opid));
                        v(&mut out, "C14", "closure_run_after_future_dropped", &[opid], s, format!("closure of future_sync {} was invoked after the future had been dropped", opid));
                    }
                }
            }
            if let (Some(d), Some(cd)) = (hr.dropped_at, r.closure_drop_at) {
                // the borrowed closure / future must be gone when dropping the handle returns:
                // handle_dropped is stamped just before the drop, so allow the drop itself
                let _ = (d, cd);
            }
            if let Some(d) = hr.dropped_at {
                if r.closure_drops == 0 && (rep.result.outcome == Outcome::Completed) {
                    v(&mut out, "C14", "closure_outlived_future", &[opid], d, format!("closure of future_sync {} survived its future (handle {})", opid, h));
                }
            }
        }
    }

    // ---- C05: value destroyed exactly once, after everything
    for (o, slot) in world.objs.iter().enumerate() {
        if slot.value_drops > 1 {
            v(&mut out, "C05", "value_destroyed_twice", &[], slot.value_dropped_at.unwrap_or(0), format!("value of object {} destroyed {} times", o, slot.value_drops));
            v(&mut out, "C14", "double_free", &[], slot.value_dropped_at.unwrap_or(0), format!("value of object {} freed {} times", o, slot.value_drops));
        }
        if let Some(vd) = slot.value_dropped_at {
            for r in ops.iter().filter(|r| r.obj == Some(o) && r.kind.has_body()) {
                if accepted(r) && r.ret.map_or(false, |x| x < slot.drop_inv.unwrap_or(vd)) {
                    let cancelled = r.kind == Kind::FutureSync;
                    if !cancelled && !(r.fin.map_or(false, |f| f < vd)) && !slot.panic_injected {
                        v(&mut out, "C05", "drop_did_not_wait", &[r.id], vd, format!("value of object {} destroyed before {} {} (scheduled earlier) had finished", o, r.tag, r.id));
                    }
                }
            }
            if let Some(dr) = slot.drop_ret {
                if dr < vd {
                    v(&mut out, "C05", "drop_returned_early", &[], dr, format!("drop of object {} returned before the value was destroyed", o));
                }
            }
        }
    }

    // ---- C13: suspend
    for hr in world.hrec.iter().filter(|h| h.kind == Kind::Suspend) {
        let Some(sid) = hr.op else { continue };
        let s_op = &ops[sid as usize];
        let (Some(o), Some(s_inv), Some(s_ret)) = (s_op.obj, s_op.inv, s_op.ret) else { continue };
        if let (Some(t_s), Some(Ok(_))) = (hr.resolved_at, hr.value) {
            for a in ops.iter().filter(|r| r.obj == Some(o) && r.kind.ordered() && accepted(r)) {
                if a.ret.map_or(false, |ra| ra < s_inv) {
                    let cancelled = a.kind == Kind::FutureSync && a.start.is_none();
                    if !cancelled && !a.fin.map_or(false, |f| f < t_s) {
                        v(&mut out, "C13", "suspended_before_earlier_finished", &[sid, a.id], t_s, format!("suspend {} resolved before earlier {} {} had finished", sid, a.tag, a.id));
                    }
                }
            }
            for b in ops.iter().filter(|r| r.obj == Some(o) && r.kind.ordered()) {
                if b.inv.map_or(false, |ib| ib > s_ret) {
                    if let Some(sb) = b.start {
                        let ok = hr.resumed_at.map_or(false, |ra| sb > ra);
                        if !ok {
                            v(&mut out, "C13", "ran_while_suspended", &[sid, b.id], sb, format!("{} {} (scheduled after suspend {}) started before the queue was resumed", b.tag, b.id, sid));
                        }
                    }
                } else if let Some(sb) = b.start {
                    // scheduled while the suspend request itself was being made: it counts as before the suspension (and is over when
                    // the suspension is reported) or as after it (and waits for the resumer), but it cannot start in between
                    if sb > t_s && !hr.resumed_at.map_or(false, |ra| sb > ra) {
                        v(&mut out, "C13", "started_inside_suspension", &[sid, b.id], sb, format!("{} {} started on object {} after suspend {} had been reported as reached and before the queue was resumed", b.tag, b.id, o, sid));
                    }
                }
            }
        }
    }

    // ---- C15: calls on a panicked object fail loudly
    for (o, slot) in world.objs.iter().enumerate() {
        if !slot.panic_injected {
            continue;
        }
        let src = ops.iter().filter(|r| r.obj == Some(o) && r.injects_panic && r.start.is_some()).min_by_key(|r| r.phase);
        let Some(src) = src else { continue };
        let pp = src.phase;
        // a future_sync body is polled by the task awaiting it, not by one of the queue's runners
        let in_fs = src.kind == Kind::FutureSync;
        for r in ops.iter().filter(|r| r.obj == Some(o) && r.phase > pp && r.kind.has_body()) {
            match &r.outcome {
                CallOutcome::Panicked(_) => {}
                CallOutcome::Returned(_) | CallOutcome::Busy => {
                    if in_fs {
                        v(&mut out, "C15", "panic_in_future_sync_not_contained", &[r.id], r.ret.unwrap_or(0), format!("the panic was raised inside future_sync {} (polled by its awaiting task); afterwards {} {} on object {} returned normally instead of panicking", src.id, r.tag, r.id, o));
                    } else {
                        v(&mut out, "C15", "call_on_panicked_object_returned", &[r.id], r.ret.unwrap_or(0), format!("{} {} on panicked object {} returned normally instead of panicking", r.tag, r.id, o));
                    }
                }
                _ => {}
            }
            if r.start.is_some() && !in_fs {
                v(&mut out, "C15", "ran_on_panicked_object", &[r.id], r.start.unwrap(), format!("{} {} ran on panicked object {}", r.tag, r.id, o));
            }
        }
        // the thread on which the panic surfaced knows that it is over as soon as it has caught it: whatever it schedules on the
        // object from then on must be refused, in the same phase too
        let observer: Option<(usize, u64)> = match src.kind {
            Kind::Sync | Kind::TrySync if matches!(src.outcome, CallOutcome::Panicked(_)) => src.thread.zip(src.ret),
            Kind::FutureSync => world.hrec.iter().find(|h| h.op == Some(src.id)).and_then(|h| h.panicked_at).map(|(sq, t)| (t, sq)),
            _ => None,
        };
        if let Some((t, after)) = observer {
            for r in ops.iter().filter(|r| r.obj == Some(o) && r.phase == pp && r.kind.has_body() && r.thread == Some(t) && r.nested_in.is_none() && r.inv.map_or(false, |i| i > after)) {
                if matches!(r.outcome, CallOutcome::Returned(_) | CallOutcome::Busy) {
                    v(&mut out, "C15", "call_on_panicked_object_returned", &[r.id], r.ret.unwrap_or(0), format!("{} {} on panicked object {} returned normally instead of panicking (made by the thread on which the panic of {} {} had just surfaced)", r.tag, r.id, o, src.tag, src.id));
                }
            }
        }
        // ... and whatever was still queued when the object panicked stays where it is: nothing of the dead queue starts once the
        // panic is over (the phase in which it happened has drained completely)
        if let Some(&after) = world.phase_started.get(pp + 1) {
            for r in ops.iter().filter(|r| r.obj == Some(o) && r.phase <= pp && r.kind.has_body() && !r.injects_panic) {
                if r.start.map_or(false, |st| st > after) {
                    v(&mut out, "C15", "dead_queue_ran_later", &[r.id], r.start.unwrap(), format!("{} {} had been queued on object {} when it panicked; it was started after the panic was over", r.tag, r.id, o));
                }
            }
        }
    }

    // ---- C17: pool size
    if let Some((live_before, max)) = world.spawn_violation {
        v(&mut out, "C17", "spawn_above_maximum", &[], 0, format!("a pool thread was spawned while {} were alive and the maximum was {}", live_before, max));
    }
    for (pi, live_now, max) in &facts.pool_after_despawn {
        if *live_now as usize > *max {
            v(&mut out, "C17", "despawn_left_too_many", &[], 0, format!("phase {}: {} pool threads alive after despawn_threads_if_overloaded with maximum {}", pi, live_now, max));
        }
    }

    // ---- pipes: C11 / C12 (safety part)
    for (s, st) in world.streams.iter().enumerate() {
        let Some(pid) = st.pipe_op else { continue };
        let pk = ops[pid as usize].kind;
        let prop = if pk == Kind::PipeIn { "C11" } else { "C12" };
        let processed: Vec<u32> = st.processed.iter().map(|p| p.0).collect();
        // processed must be a prefix of pushed (each once, in order)
        let is_prefix = processed.len() <= st.pushed.len() && processed.iter().zip(st.pushed.iter()).all(|(a, b)| a == b);
        if !is_prefix {
            v(&mut out, prop, "items_wrong", &[pid], 0, format!("stream {}: processed items {:?} are not a prefix of the pushed items {:?}", s, processed, st.pushed));
        }
        if st.cancelled_items > 0 && !world.objs[st.obj.unwrap_or(0)].panic_injected {
            v(&mut out, prop, "item_processing_cancelled", &[pid], 0, format!("stream {}: the processing future of {} item(s) was destroyed before it had completed", s, st.cancelled_items));
        }
        if st.drops > 1 || st.closure_drops > 1 {
            v(&mut out, "C14", "pipe_state_dropped_twice", &[pid], 0, format!("stream {} dropped {} times, closure {} times", s, st.drops, st.closure_drops));
        }
    }
    for (oi, os) in world.outs.iter().enumerate() {
        let Some(s) = os.src else { continue };
        let expected: Vec<u64> = world.streams[s].pushed.iter().map(|i| out_value(*i)).collect();
        let is_prefix = os.outputs.len() <= expected.len() && os.outputs.iter().zip(expected.iter()).all(|(a, b)| a == b);
        if !is_prefix {
            v(&mut out, "C12", "outputs_wrong", &[], 0, format!("pipe output {}: got {:?}, expected a prefix of {:?}", oi, os.outputs, expected));
        }
        if os.ended && os.outputs.len() != expected.len() && os.dropped_at.is_none() {
            v(&mut out, "C12", "ended_early", &[], 0, format!("pipe output {} ended after {} of {} outputs", oi, os.outputs.len(), expected.len()));
        }
    }

    // ---- liveness and end-state checks
    let abandoned = facts.abandoned.is_some();
    let world_ended = matches!(rep.result.outcome, Outcome::Completed | Outcome::Stuck) && !abandoned;
    if world_ended {
        let hung = facts.hung || rep.result.outcome == Outcome::Stuck;
        verdict.hung = hung;
        if hung {
            blame_hang(rep, live, &mut out, &mut verdict);
        } else {
            end_state(rep, live, &mut out);
        }
    }

    // C04 at every quiescence: nobody is going to wake a caller that sleeps on a queue it could run itself
    if live == Live::Full || live == Live::SyncOnly {
        for snap in facts.q1.iter().chain(facts.q2.iter()) {
            for (id, o, st) in &snap.asleep_syncs {
                let r = &ops[*id as usize];
                v(&mut out, "C04", "sync_asleep_on_claimable_queue", &[*id], snap.seq, format!("everything had gone quiet, yet {} {} on object {} slept on a condition variable while its queue was claimable (state tag {}): only an outside event could still rescue it", r.tag, id, o, st));
                let after_suspend = world.hrec.iter().any(|h| h.kind == Kind::Suspend && h.resumed_at.map_or(false, |ra| ra < snap.seq) && h.op.map_or(false, |sid| ops[sid as usize].obj == Some(*o) && ops[sid as usize].ret.map_or(false, |sr| r.inv.map_or(false, |i| i > sr))));
                if after_suspend {
                    v(&mut out, "C13", "sync_during_suspension_never_completed", &[*id], snap.seq, format!("{} {} was made while object {} was suspended; the resumer has been used or dropped, everything has gone quiet, and the call still sleeps on a claimable queue", r.tag, id, o));
                }
            }
        }
    }

    // C15: after the panic the pool can still stall as many jobs at once as its maximum allows
    let probe: Vec<u32> = prog.capacity_probe.iter().copied().filter(|id| (*id as usize) < ops.len() && ops[*id as usize].kind == Kind::Desync && ops[*id as usize].blocking_steps).collect();
    if !probe.is_empty() && probe.len() == prog.capacity_probe.len() && world.objs.iter().any(|o| o.panic_injected) {
        let ph = ops[probe[0] as usize].phase;
        if let Some(snap) = facts.q1.get(ph) {
            let missing: Vec<u32> = probe.iter().copied().filter(|id| !snap.started_unfinished.contains(id)).collect();
            let all_called = probe.iter().all(|id| matches!(ops[*id as usize].outcome, CallOutcome::Returned(_)));
            if !missing.is_empty() && all_called {
                v(&mut out, "C15", "capacity_not_restored", &missing, snap.seq, format!("after the panic only {} of {} stalled jobs could run at the same time (pool maximum {}): operations {:?} had not started at quiescence", prog.capacity_probe.len() - missing.len(), prog.capacity_probe.len(), prog.pool_max, missing));
            }
        }
    }

    // C11 at every quiescence: once the harness has released all its owners and nobody is inside a call, nothing but
    // the pipe itself can be holding a strong reference; pipe_in must not
    for (pi, snap) in facts.q1.iter().chain(facts.q2.iter()).enumerate() {
        let pi = pi % facts.q1.len().max(1);
        for (s, st) in world.streams.iter().enumerate() {
            let Some(pid) = st.pipe_op else { continue };
            if ops[pid as usize].kind != Kind::PipeIn || ops[pid as usize].phase != pi {
                continue;
            }
            let o = st.obj.unwrap_or(0);
            let strong_by_design = ops.iter().any(|r| (r.kind == Kind::FutureSync || r.kind == Kind::Pipe) && r.obj == Some(o));
            let in_call = ops.iter().any(|r| r.obj == Some(o) && r.inv.map_or(false, |i| i < snap.seq) && r.ret.map_or(true, |x| x > snap.seq));
            let dropping = world.objs[o].drop_inv.map_or(false, |i| i < snap.seq) && world.objs[o].drop_ret.map_or(true, |x| x > snap.seq);
            if let Some(td) = world.objs[o].table_dropped_at {
                if td < snap.seq && !strong_by_design && !in_call && !dropping && !world.objs[o].panic_injected && snap.live_owners.get(o).copied().unwrap_or(0) > 0 {
                    v(&mut out, "C11", "pipe_in_holds_strong_reference", &[pid], snap.seq, format!("every harness owner of object {} has been released and no call is in progress, yet {} strong reference(s) are still alive at quiescence while pipe_in on stream {} exists", o, snap.live_owners[o], s));
                }
            }
        }
    }

    // C16 / C11 at the quiescence reached after every gate has been opened: the input has been silent
    // since the drop and has not ended
    for (pi, snap) in facts.q2.iter().enumerate() {
        for (oi, os) in world.outs.iter().enumerate() {
            let (Some(s), Some(d)) = (os.src, os.dropped_at) else { continue };
            if d > snap.seq {
                continue;
            }
            let st = &world.streams[s];
            let Some(pid) = st.pipe_op else { continue };
            if ops[pid as usize].phase != pi || !matches!(ops[pid as usize].outcome, CallOutcome::Returned(_)) {
                continue;
            }
            let silent = !world.events.iter().any(|e| e.seq > d && e.seq < snap.seq && (e.code == "push" || e.code == "close") && e.a == s as i64);
            let o = st.obj.unwrap_or(0);
            if !silent || min_pool(prog) == 0 || world.objs[o].panic_injected {
                continue;
            }
            let (sd, cd) = snap.streams.get(s).copied().unwrap_or((0, 0));
            if sd == 0 || cd == 0 {
                v(&mut out, "C16", "pipe_not_shut_down", &[pid], snap.seq, format!("output {} of pipe {} was dropped but at quiescence (input silent) the input stream had been dropped {} times and the processing closure {} times", oi, pid, sd, cd));
            }
            if let Some(Some(n)) = snap.strong.get(o) {
                let keepers = world.hrec.iter().filter(|h| h.kind == Kind::FutureSync && h.dropped_at.map_or(true, |x| x > snap.seq) && h.op.map_or(false, |op| ops[op as usize].obj == Some(o) && ops[op as usize].inv.map_or(false, |i| i < snap.seq))).count();
                // (another pipe into the same object whose output is still alive holds a reference of its own)
                let other_pipes = world.outs.iter().enumerate().filter(|(oj, osj)| *oj != oi && osj.src.map_or(false, |s2| world.streams[s2].obj == Some(o) && world.streams[s2].pipe_op.map_or(false, |p| ops[p as usize].kind == Kind::Pipe && ops[p as usize].inv.is_some())) && osj.dropped_at.map_or(true, |x| x > snap.seq)).count();
                if *n > 1 + keepers + other_pipes {
                    v(&mut out, "C16", "strong_reference_kept", &[pid], snap.seq, format!("output {} of pipe {} was dropped but the pipe still holds a strong reference on object {} at quiescence (count {})", oi, pid, o, n));
                }
            }
        }
        // pipe_in holds only a weak reference: once the owners are gone the value goes, stream open or not
        for (s, st) in world.streams.iter().enumerate() {
            let Some(pid) = st.pipe_op else { continue };
            if ops[pid as usize].kind != Kind::PipeIn || ops[pid as usize].phase != pi {
                continue;
            }
            let o = st.obj.unwrap_or(0);
            let has_fs = ops.iter().any(|r| (r.kind == Kind::FutureSync || r.kind == Kind::Pipe) && r.obj == Some(o));
            if let Some(td) = world.objs[o].table_dropped_at {
                // every thread is quiet, so nobody holds a temporary owner: only the pipe can be keeping it alive
                if td < snap.seq && !has_fs && min_pool(prog) >= 1 && !world.objs[o].panic_injected && snap.value_drops.get(o) == Some(&0) {
                    v(&mut out, "C11", "pipe_in_kept_object_alive", &[pid], snap.seq, format!("every owner of object {} was released but its value was still alive at quiescence while pipe_in on stream {} was open", o, s));
                }
            }
        }
    }

    // C12 at the second quiescence of each phase (every gate open, input open and silent, every thread quiet): a pipe that has
    // input left to process is either full (at least `depth` outputs waiting to be read) or has been resumed; room that the
    // consumer's last read made must have been used without the consumer having to come back
    for (pi, snap) in facts.q2.iter().enumerate() {
        for &(oi, si, pushed, started, finished, read, depth, out_dropped, consumer_waiting) in &snap.pipes {
            let st = &world.streams[si];
            let Some(pid) = st.pipe_op else { continue };
            let r = &ops[pid as usize];
            if r.kind != Kind::Pipe || r.phase != pi || !matches!(r.outcome, CallOutcome::Returned(_)) {
                continue;
            }
            let o = r.obj.unwrap_or(0);
            if out_dropped || consumer_waiting || panicked_obj(Some(o)) || started != finished || min_pool(prog) == 0 {
                continue;
            }
            // somebody else may legitimately be holding the object (an operation that is itself stuck on something the program blocked)
            let obj_busy = ops.iter().any(|x| x.obj == Some(o) && x.kind.has_body() && x.start.is_some() && x.fin.is_none());
            if obj_busy {
                continue;
            }
            let waiting_outputs = finished.saturating_sub(read);
            if pushed > started && waiting_outputs < depth {
                v(&mut out, "C12", "producer_not_resumed", &[pid], snap.seq, format!("pipe {} on object {}: {} of {} input items processed, {} outputs read, so only {} outputs are waiting in a buffer of depth {} and {} items are left in the input, but the producer is not running (output {}): the room made by the consumer's last read was not used", pid, o, finished, pushed, read, waiting_outputs, depth, pushed - started, oi));
            }
        }
    }

    // C10 at the first quiescence of each phase
    if !prog.blocked_objs.is_empty() || !prog.blocking_gates.is_empty() {
        for (pi, snap) in facts.q1.iter().enumerate() {
            // the pool maximum in force during this phase: with no pool thread allowed nothing is promised
            let mut eff_max = prog.pool_max;
            for ph in prog.phases.iter().take(pi + 1) {
                for c in &ph.ctl {
                    if let CtlOp::SetMaxLazy(n) | CtlOp::SetMaxEager(n) = c {
                        eff_max = *n;
                    }
                }
            }
            if eff_max == 0 {
                continue;
            }
            for id in &snap.unfinished {
                let r = &ops[*id as usize];
                let Some(o) = r.obj else { continue };
                // (work accepted in an earlier phase, while no pool thread was allowed, counts from the phase that raises the maximum)
                if prog.blocked_objs.contains(&o) || panicked_obj(Some(o)) || r.phase > pi {
                    continue;
                }
                if !matches!(r.outcome, CallOutcome::Returned(_) | CallOutcome::InCall) {
                    continue;
                }
                if r.kind == Kind::FutureSync {
                    continue;
                }
                v(&mut out, "C10", "blocked_by_other_object", &[*id], snap.seq, format!("{} {} on object {} had not finished at quiescence although only objects {:?} were blocked (pool maximum {})", r.tag, id, o, prog.blocked_objs, eff_max));
            }
        }
    }

    out.dedup_by(|a, b| a.prop == b.prop && a.kind == b.kind && a.ops == b.ops);
    if !out.is_empty() {
        // a controller brought down by the damage a violation did (poisoned locks, ...) is not a harness fault
        verdict.harness_error = None;
    }
    verdict.violations = out;
    verdict
}

fn end_state(rep: &RunReport, live: Live, out: &mut Vec<Violation>) {
    let world = &*rep.world;
    let facts = &rep.facts;
    let ops = &world.ops;
    let full = live == Live::Full;
    for r in ops.iter() {
        let Some(o) = r.obj else { continue };
        if world.objs[o].panic_injected {
            continue;
        }
        if !matches!(r.outcome, CallOutcome::Returned(_)) {
            continue;
        }
        if r.kind.background() && full {
            if r.start.is_none() {
                v(out, "C03", "operation_lost", &[r.id], r.ret.unwrap_or(0), format!("{} {} on object {} was accepted but never ran", r.tag, r.id, o));
                if r.kind != Kind::Desync {
                    v(out, "C07", "operation_did_not_run", &[r.id], r.ret.unwrap_or(0), format!("{} {} never ran although the pool had a thread", r.tag, r.id));
                }
            } else if r.fin_kind != FinKind::Normal {
                if r.injects_panic {
                    continue;
                }
                v(out, "C03", "operation_not_completed", &[r.id], r.start.unwrap_or(0), format!("{} {} on object {} started but did not complete ({:?})", r.tag, r.id, o, r.fin_kind));
            }
        }
        if r.kind.has_body() && facts.teardown_complete && (full || r.kind == Kind::Sync || r.kind == Kind::TrySync) && r.closure_drops == 0 {
            v(out, "C03", "operation_leaked", &[r.id], 0, format!("closure of {} {} was neither run nor dropped by the end of the run", r.tag, r.id));
        }
    }
    // awaited handles must have resolved (the awaiting task returned, so they did) -- covered by hang blame.
    // queues idle and empty, nothing marked running
    if facts.teardown_complete {
        for (o, peek) in &facts.queue_peeks {
            let slot = &world.objs[*o];
            if slot.panic_injected {
                continue;
            }
            match peek {
                Some((0, 0, _)) => {}
                Some((st, len, _)) => {
                    if full || (*st != 1 && *st != 0) {
                        v(out, "C03", "queue_not_idle_at_quiescence", &[], 0, format!("object {}: queue state tag {} with {} jobs queued after everything went quiet", o, st, len));
                        if slot.saw_busy && *st == 2 {
                            v(out, "C09", "busy_try_sync_left_queue_running", &[], 0, format!("object {}: queue left marked running after a Busy try_sync", o));
                        }
                    }
                }
                None => {}
            }
            if slot.value_drops == 0 && full && !slot.is_raw {
                v(out, "C05", "value_never_destroyed", &[], 0, format!("value of object {} was never destroyed although every owner was released", o));
            }
        }
        let c = &rep.result.counters;
        if c.pool_spawned != c.pool_exited {
            v(out, "C17", "pool_threads_left", &[], 0, format!("{} pool threads spawned, {} exited after despawn to zero", c.pool_spawned, c.pool_exited));
        }
        if world.prog.pool_max == 0 && min_pool(&world.prog) == 0 && !world.prog.phases.iter().any(|p| !p.ctl.is_empty()) && c.pool_spawned > 0 {
            v(out, "C17", "thread_with_zero_maximum", &[], 0, format!("{} pool threads were created with a maximum of zero", c.pool_spawned));
        }
        // pipes: everything released (C11 / C16), pipe_in processed everything that was yielded
        if full {
            for (s, st) in world.streams.iter().enumerate() {
                let Some(pid) = st.pipe_op else { continue };
                if !matches!(ops[pid as usize].outcome, CallOutcome::Returned(_)) {
                    continue;
                }
                let pk = ops[pid as usize].kind;
                let o = st.obj.unwrap_or(0);
                if world.objs[o].panic_injected {
                    continue;
                }
                let prop = if pk == Kind::PipeIn { "C11" } else { "C16" };
                if st.drops == 0 || st.closure_drops == 0 {
                    v(out, prop, "pipe_not_released", &[pid], 0, format!("stream {} (drops {}) / its processing closure (drops {}) were not released after the stream ended", s, st.drops, st.closure_drops));
                }
            }
        }
    }
    // pipe_in: everything the stream yielded while the object was alive has been processed
    if full && facts.teardown_complete {
        for (s, st) in world.streams.iter().enumerate() {
            let Some(pid) = st.pipe_op else { continue };
            if ops[pid as usize].kind != Kind::PipeIn || !matches!(ops[pid as usize].outcome, CallOutcome::Returned(_)) {
                continue;
            }
            let o = st.obj.unwrap_or(0);
            if world.objs[o].panic_injected {
                continue;
            }
            // items yielded before the object's owners started to go away must all have been processed
            let cutoff = world.objs[o].table_dropped_at.unwrap_or(u64::MAX);
            let pushed_before: usize = world.events.iter().filter(|e| e.code == "push" && e.a == s as i64 && e.seq < cutoff).count();
            let pushed_before = pushed_before.min(st.pushed.len());
            if world.objs[o].table_dropped_at.is_none() && st.processed.len() < pushed_before {
                v(out, "C11", "items_lost", &[pid], 0, format!("stream {}: {} items were pushed while object {} was alive but only {} were processed: {:?} of {:?}", s, pushed_before, o, st.processed.len(), st.processed.iter().map(|p| p.0).collect::<Vec<_>>(), st.pushed));
            }
            if st.processed.iter().any(|p| p.2.is_none()) {
                v(out, "C11", "item_processing_unfinished", &[pid], 0, format!("stream {}: processing of an item never finished", s));
            }
        }
        for (oi, os) in world.outs.iter().enumerate() {
            let Some(s) = os.src else { continue };
            let st = &world.streams[s];
            let o = st.obj.unwrap_or(0);
            if world.objs[o].panic_injected || os.dropped_at.map_or(false, |d| d < facts.q1.last().map_or(0, |q| q.seq)) {
                continue;
            }
            // the consumer asked until the end: it must have seen every output
            if os.ended {
                let expected = st.pushed.len();
                if os.outputs.len() != expected {
                    v(out, "C12", "outputs_lost", &[], 0, format!("pipe output {} ended after {} outputs for {} inputs", oi, os.outputs.len(), expected));
                }
            }
        }
    }
    for (o, txt) in &facts.final_try_sync {
        if txt != "ok" && (full || live == Live::SyncOnly) {
            v(out, "C09", "try_sync_refused_on_idle_object", &[], 0, format!("object {}: try_sync with nothing queued or in progress gave {}", o, txt));
        }
    }
}

fn short_state(s: &TState) -> &'static str {
    match s {
        TState::Runnable => "runnable",
        TState::Finished => "finished",
        TState::Blocked(Wait::Mutex(_)) => "blocked on mutex",
        TState::Blocked(Wait::Condvar(_)) => "waiting on condvar",
        TState::Blocked(Wait::Park) => "parked",
        TState::Blocked(Wait::Recv(_)) => "waiting on channel",
        TState::Blocked(Wait::Join(_)) => "joining",
        TState::Blocked(Wait::Quiesce) => "awaiting quiescence",
        TState::Blocked(Wait::Trigger) => "awaiting sweep trigger",
    }
}

fn min_pool_of(world: &World) -> usize {
    min_pool(&world.prog)
}

/// Somebody is stuck although every fault has stopped.  Decide whose promise that breaks.
fn blame_hang(rep: &RunReport, live: Live, out: &mut Vec<Violation>, verdict: &mut Verdict) {
    let world = &*rep.world;
    let facts = &rep.facts;
    let ops = &world.ops;
    let stage = facts.stage.clone();
    let tasks = &rep.result.tasks;
    let blocked: Vec<usize> = tasks.iter().filter(|t| matches!(t.state, TState::Blocked(w) if w != Wait::Quiesce && w != Wait::Recv(0)) && !(t.name == "desync jobs thread" && matches!(t.state, TState::Blocked(Wait::Recv(_))))).map(|t| t.id).collect();
    let where_ = format!("stage {:?}, blocked tasks {:?}", stage, blocked.iter().map(|t| format!("{}:{}:{}", t, tasks[*t].name, short_state(&tasks[*t].state))).collect::<Vec<_>>());
    if live == Live::None {
        return;
    }
    let full = live == Live::Full;
    let _ = min_pool_of(world);

    // a thread is still inside the drop of a pipe's output stream
    for e in world.events.iter().filter(|e| e.code == "out_dropped") {
        let out_id = e.a as usize;
        if world.events.iter().any(|d| d.code == "out_drop_done" && d.a == e.a && d.seq > e.seq) {
            continue;
        }
        let o = world.outs.get(out_id).and_then(|os| os.src).and_then(|s| world.streams[s].obj).unwrap_or(0);
        v(out, "C16", "dropping_output_stream_never_returned", &[], e.seq, format!("the drop of pipe output {} never returned: {}", out_id, where_));
        if world.objs[o].table_dropped_at.is_some() && world.objs[o].value_drops == 0 {
            v(out, "C05", "drop_never_returned", &[], e.seq, format!("the last owner of object {} was released inside the drop of pipe output {} and that drop never returned; the value was never destroyed: {}", o, out_id, where_));
        }
        return;
    }
    // a caller asked for surplus pool threads to be despawned and is still waiting for that call to return
    let desp_inv = world.events.iter().filter(|e| e.code == "despawn_inv").count();
    let desp_ret = world.events.iter().filter(|e| e.code == "despawn_ret").count();
    if desp_inv > desp_ret {
        v(out, "C17", "despawn_did_not_return", &[], 0, format!("despawn_threads_if_overloaded called from a caller thread while the pool was at work did not return: {}", where_));
        return;
    }
    // stuck in teardown
    match stage {
        Some(Stage::TeardownPool) => {
            v(out, "C17", "despawn_did_not_return", &[], 0, format!("despawn_threads_if_overloaded did not return: {}", where_));
            return;
        }
        Some(Stage::TeardownStatics) | Some(Stage::Probes) => {
            v(out, "C03", "teardown_stuck", &[], 0, format!("the scheduler did not wind down: {}", where_));
            return;
        }
        _ => {}
    }

    // is there a pool thread that could have run a stranded queue?
    let idle_pool = tasks.iter().filter(|t| t.name == "desync jobs thread" && matches!(t.state, TState::Blocked(Wait::Recv(_)))).count();
    let live_pool = tasks.iter().filter(|t| t.name == "desync jobs thread" && t.state != TState::Finished).count();
    let pool_available = idle_pool > 0 || live_pool < world.cur_max;
    let mut props_found = 0;
    let task_state = |t: Option<usize>| t.and_then(|t| tasks.get(t)).map(|t| t.state);
    for (o, slot) in world.objs.iter().enumerate() {
        let peek = facts.queue_peeks.iter().find(|p| p.0 == o).and_then(|p| p.1);
        let qstate = peek.map(|p| p.0);
        if slot.panic_injected {
            // anything waiting on a panicked object: C15 (callers must be refused, not left hanging)
            for r in ops.iter().filter(|r| r.obj == Some(o) && r.outcome == CallOutcome::InCall) {
                let pp = ops.iter().filter(|x| x.obj == Some(o) && x.injects_panic && x.start.is_some()).map(|x| x.phase).min();
                if pp.map_or(false, |pp| r.phase > pp) {
                    v(out, "C15", "call_on_panicked_object_blocked", &[r.id], r.inv.unwrap_or(0), format!("{} {} on panicked object {} blocked instead of panicking: {}", r.tag, r.id, o, where_));
                    props_found += 1;
                }
            }
            // ... and so must whoever waits for a future of the object, or releases its last owner, once the panic is over
            let pp = ops.iter().filter(|x| x.obj == Some(o) && x.injects_panic && x.start.is_some()).map(|x| x.phase).min();
            let in_fs = ops.iter().any(|x| x.obj == Some(o) && x.injects_panic && x.start.is_some() && x.kind == Kind::FutureSync);
            if let (Some(after), false) = (pp.and_then(|pp| world.phase_started.get(pp + 1).copied()), in_fs) {
                for (h, hr) in world.hrec.iter().enumerate() {
                    let (Some(t), Some(opid)) = (hr.awaiting, hr.op) else { continue };
                    if ops[opid as usize].obj == Some(o) && hr.await_started.map_or(false, |s| s > after) && hr.resolved_at.is_none() {
                        v(out, "C15", "wait_on_panicked_object_blocked", &[opid], hr.await_started.unwrap_or(0), format!("task {} waits for handle {} of {} {} on panicked object {} and is neither refused nor cancelled: {}", t, h, ops[opid as usize].tag, opid, o, where_));
                        props_found += 1;
                    }
                }
                if let (Some(di), None) = (slot.drop_inv, slot.drop_ret) {
                    if di > after {
                        v(out, "C15", "drop_of_panicked_object_blocked", &[], di, format!("releasing the last owner of panicked object {} blocked: {}", o, where_));
                        props_found += 1;
                    }
                }
            }
            continue;
        }
        let describe = |r: &OpRec| format!("{} {} on object {} (queue state/len/waiters {:?}, pool threads/busy/scheduled/max {:?}): {}", r.tag, r.id, o, peek, facts.sched_peek, where_);

        // 0. the closure of a sync has run to its end but the caller is still blocked in the call
        for r in ops.iter().filter(|r| r.obj == Some(o) && r.kind == Kind::Sync && r.outcome == CallOutcome::InCall && r.fin.is_some() && r.fin_kind == FinKind::Normal) {
            if matches!(task_state(r.thread), Some(TState::Blocked(_))) {
                v(out, "C04", "sync_did_not_return_after_running", &[r.id], r.fin.unwrap_or(0), describe(r));
                props_found += 1;
            }
        }
        // 1. a caller asleep in sync although it could run the queue itself
        for r in ops.iter().filter(|r| r.obj == Some(o) && r.kind == Kind::Sync && r.outcome == CallOutcome::InCall && r.start.is_none()) {
            let event_fired = ops.iter().any(|x| x.obj == Some(o) && x.start.is_some() && x.fin.is_none() && x.kind != Kind::FutureSync && x.waiting_gate.map_or(false, |g| world.gates[g].open || x.waiting_gate_alt.map_or(false, |g2| world.gates[g2].open)));
            if matches!(task_state(r.thread), Some(TState::Blocked(Wait::Condvar(_)))) && (matches!(qstate, Some(0) | Some(1)) || (qstate == Some(5) && event_fired)) && sync_is_owed_progress(world, r) {
                v(out, "C04", "sync_asleep_on_claimable_queue", &[r.id], r.inv.unwrap_or(0), describe(r));
                // ... and if it was made while the queue was suspended and the resumer has since been used or dropped,
                // it is a sync that did not complete after resumption
                let after_suspend = world.hrec.iter().any(|h| h.kind == Kind::Suspend && h.resumed_at.is_some() && h.op.map_or(false, |sid| ops[sid as usize].obj == Some(o) && ops[sid as usize].ret.map_or(false, |sr| r.inv.map_or(false, |i| i > sr))));
                if after_suspend {
                    v(out, "C13", "sync_during_suspension_never_completed", &[r.id], r.inv.unwrap_or(0), describe(r));
                }
                props_found += 1;
            }
        }
        // 1b. the suspension is held by a caller parked inside its own sync (it drained the queue into the hold job): once every
        // resumer of the object has been used or dropped, that caller must be unparked and go on
        {
            let mut sus = world.hrec.iter().filter(|h| h.kind == Kind::Suspend && h.resolved_at.is_some() && h.op.map_or(false, |s| ops[s as usize].obj == Some(o))).peekable();
            let any = sus.peek().is_some();
            let all_resumed = sus.all(|h| h.resumed_at.is_some());
            let other_wait = ops.iter().any(|x| x.obj == Some(o) && x.start.is_some() && x.fin.is_none() && x.kind != Kind::Suspend && x.waiting_gate.is_some());
            let piped = world.streams.iter().any(|st| st.obj == Some(o));
            if any && all_resumed && qstate == Some(4) && !other_wait && !piped {
                for r in ops.iter().filter(|r| r.obj == Some(o) && r.kind == Kind::Sync && r.outcome == CallOutcome::InCall && r.start.is_none() && matches!(task_state(r.thread), Some(TState::Blocked(Wait::Park)))) {
                    v(out, "C13", "sync_holding_the_suspension_left_parked_after_resume", &[r.id], r.inv.unwrap_or(0), describe(r));
                    props_found += 1;
                }
            }
        }
        if slot.drop_inv.is_some() && slot.drop_ret.is_none() {
            if matches!(task_state(slot.dropper), Some(TState::Blocked(Wait::Condvar(_)))) && matches!(qstate, Some(0) | Some(1)) {
                v(out, "C05", "drop_asleep_on_claimable_queue", &[], slot.drop_inv.unwrap_or(0), format!("dropping object {} sleeps although its queue (state/len/waiters {:?}) can be claimed: {}", o, peek, where_));
                props_found += 1;
            }
        }

        // an accepted background operation that was started, whose event has fired, and that is never completed is
        // also a lost operation (C03) and, for operations with a returned future, one that did not run to completion (C07)
        let also_stranded = |out: &mut Vec<Violation>, hd: &OpRec| {
            if full && hd.kind.background() && hd.nested_in.is_none() {
                v(out, "C03", "operation_never_completed", &[hd.id], hd.start.unwrap_or(0), format!("{} {} on object {} was started, its event has fired, but it never completed: {}", hd.tag, hd.id, o, where_));
                if hd.kind != Kind::Desync {
                    v(out, "C07", "operation_did_not_complete", &[hd.id], hd.start.unwrap_or(0), format!("{} {} on object {} never ran to completion although the pool had a thread", hd.tag, hd.id, o));
                }
            }
        };
        // 2. an operation inside the object that does not finish
        let inside: Vec<&OpRec> = ops.iter().filter(|r| r.obj == Some(o) && r.kind.has_body() && r.start.is_some() && r.fin.is_none()).collect();
        for hd in &inside {
            if let Some(g) = hd.waiting_gate {
                if world.gates[g].open || hd.waiting_gate_alt.map_or(false, |g2| world.gates[g2].open) {
                    // Who polls this operation's future?  A future_sync body is polled by whoever awaits the
                    // returned future: the harness task, or (nested) the job of another object; everything
                    // else is polled by its own object's queue.
                    let mut ctx: Option<usize> = Some(o);
                    let mut cur: &OpRec = hd;
                    while cur.kind == Kind::FutureSync {
                        match cur.nested_in {
                            Some(p) => {
                                cur = &ops[p as usize];
                                ctx = cur.obj;
                            }
                            None => {
                                ctx = None;
                                break;
                            }
                        }
                    }
                    if let Some(co) = ctx {
                        let cstate = facts.queue_peeks.iter().find(|p| p.0 == co).and_then(|p| p.1).map(|p| p.0);
                        match cstate {
                            // woken and put back in line, or handed to the pool: it only waits for a thread
                            Some(0) | Some(1) | Some(5) => {
                                if pool_available && full {
                                    v(out, "C06", "woken_but_not_run", &[hd.id], hd.start.unwrap_or(0), describe(hd));
                                    also_stranded(out, hd);
                                    props_found += 1;
                                }
                            }
                            // still parked although the event has fired
                            Some(3) | Some(4) => {
                                v(out, "C06", "wake_lost", &[hd.id], hd.start.unwrap_or(0), describe(hd));
                                also_stranded(out, hd);
                                props_found += 1;
                            }
                            // marked as running / awoken, but the thread that runs it from inside a call is still parked
                            Some(2) | Some(6) => {
                                let parked_runner = ops.iter().any(|r| r.obj == Some(co) && r.outcome == CallOutcome::InCall && matches!(task_state(r.thread), Some(TState::Blocked(Wait::Park))))
                                    || (world.objs[co].drop_inv.is_some() && world.objs[co].drop_ret.is_none() && matches!(task_state(world.objs[co].dropper), Some(TState::Blocked(Wait::Park))));
                                if parked_runner {
                                    v(out, "C06", "runner_left_parked", &[hd.id], hd.start.unwrap_or(0), describe(hd));
                                    also_stranded(out, hd);
                                    props_found += 1;
                                }
                            }
                            _ => {}
                        }
                    }
                }
            }
        }

        // 2b. an item that a pipe is processing inside the object (polled by the object's own queue, like a future_desync), whose
        // event has fired, and that is never finished: the items behind it are never processed either
        for (s, st) in world.streams.iter().enumerate().filter(|(_, st)| st.obj == Some(o)) {
            let Some(pid) = st.pipe_op else { continue };
            if !st.processed.iter().any(|p| p.2.is_none()) {
                continue;
            }
            let Some(g) = st.item_waiting_gate else { continue };
            if !world.gates[g].open {
                continue;
            }
            let prop = if ops[pid as usize].kind == Kind::PipeIn { "C11" } else { "C12" };
            let what = format!("stream {} into object {} (queue state/len/waiters {:?}, pool threads/busy/scheduled/max {:?}): the item being processed waits for gate {}, which has fired, but its processing is never continued: {}", s, o, peek, facts.sched_peek, g, where_);
            match qstate {
                Some(0) | Some(1) | Some(5) => {
                    if pool_available && full {
                        v(out, prop, "pipe_item_woken_but_not_run", &[pid], 0, what);
                        props_found += 1;
                    }
                }
                Some(3) | Some(4) => {
                    v(out, prop, "pipe_item_wake_lost", &[pid], 0, what);
                    props_found += 1;
                }
                _ => {}
            }
        }

        // 3. nothing inside: is accepted work being left alone?
        if inside.is_empty() {
            let waiting: Vec<&OpRec> = ops
                .iter()
                .filter(|r| r.obj == Some(o) && r.kind.has_body() && r.start.is_none() && matches!(r.outcome, CallOutcome::Returned(_)))
                .filter(|r| r.kind.background() || r.kind == Kind::FutureSync)
                .filter(|r| {
                    // a future_sync whose future is gone imposes nothing any more
                    if r.kind == Kind::FutureSync {
                        let h = r.handle.map(|h| &world.hrec[h]);
                        let nested = r.nested_in.is_some();
                        !(h.map_or(!nested, |h| h.dropped_at.is_some()))
                    } else {
                        true
                    }
                })
                .collect();
            let any_in_call = ops.iter().any(|r| r.obj == Some(o) && r.outcome == CallOutcome::InCall);
            let heads: Vec<&&OpRec> = waiting.iter().filter(|a| !waiting.iter().any(|b| b.id != a.id && b.ret.unwrap_or(u64::MAX) < a.inv.unwrap_or(0))).collect();
            let suspended_by = world.hrec.iter().find(|h| h.kind == Kind::Suspend && h.resolved_at.is_some() && h.op.map_or(false, |s| ops[s as usize].obj == Some(o)));
            for hd in heads {
                let claimable = matches!(qstate, Some(0) | Some(1));
                let abandoned = matches!(qstate, Some(2) | Some(6)) && !any_in_call;
                if let Some(sh) = suspended_by {
                    // held by a suspension: only a violation once the resumer has been used or dropped
                    if sh.resumed_at.is_some() && (matches!(qstate, Some(3)) || ((claimable || abandoned) && pool_available && full)) {
                        v(out, "C13", "held_after_resume", &[hd.id], hd.inv.unwrap_or(0), describe(hd));
                        props_found += 1;
                    }
                    continue;
                }
                if !full || !((claimable && pool_available) || abandoned) {
                    continue;
                }
                if hd.kind == Kind::FutureSync {
                    v(out, "C08", "slot_never_reached", &[hd.id], hd.inv.unwrap_or(0), describe(hd));
                } else {
                    v(out, "C03", if abandoned { "queue_marked_running_but_abandoned" } else { "operation_stranded" }, &[hd.id], hd.inv.unwrap_or(0), describe(hd));
                    if hd.kind != Kind::Desync {
                        v(out, "C07", "operation_did_not_run", &[hd.id], 0, format!("{} {} never ran although the pool had a thread", hd.tag, hd.id));
                    }
                    if abandoned && slot.saw_busy {
                        v(out, "C09", "busy_try_sync_left_queue_running", &[hd.id], 0, format!("object {}: queue left marked running after a Busy try_sync; {} {} is stranded", o, hd.tag, hd.id));
                    }
                }
                props_found += 1;
            }
            if waiting.is_empty() && slot.drop_inv.is_some() && slot.drop_ret.is_none() && !ops.iter().any(|r| r.obj == Some(o) && r.kind.has_body() && matches!(r.outcome, CallOutcome::Returned(_) | CallOutcome::InCall) && r.fin.is_none() && r.kind != Kind::FutureSync) {
                if !matches!(task_state(slot.dropper), Some(TState::Blocked(Wait::Park))) {
                    v(out, "C05", "drop_never_returned", &[], slot.drop_inv.unwrap_or(0), format!("dropping object {} never returned although all its operations had finished: {}", o, where_));
                    props_found += 1;
                }
            }
        }
    }

    // tasks waiting for a future whose operation has finished
    for (h, hr) in world.hrec.iter().enumerate() {
        if let (Some(t), Some(opid)) = (hr.awaiting, hr.op) {
            let r = &ops[opid as usize];
            if r.fin.is_some() && r.fin_kind == FinKind::Normal && hr.resolved_at.is_none() && hr.kind != Kind::Suspend && !hr.sync_wait {
                let prop = if hr.kind == Kind::FutureSync { "C08" } else { "C07" };
                if hr.kind == Kind::FutureSync {
                    // the slot job must be polled once more by whoever runs the queue; if the queue has been
                    // woken and merely waits for a thread that the program has made unavailable, nothing is owed
                    let qstate = r.obj.and_then(|o| facts.queue_peeks.iter().find(|p| p.0 == o)).and_then(|p| p.1).map(|p| p.0);
                    if matches!(qstate, Some(0) | Some(1) | Some(5)) && !pool_available {
                        continue;
                    }
                }
                v(out, prop, "awaiting_task_never_resolved", &[opid], r.fin.unwrap(), format!("task {} awaits handle {} of finished {} {} and was never given the result: {}", t, h, r.tag, opid, where_));
                props_found += 1;
            }
            // A poll that finds the queue waiting to be run (idle or pending, never claimed by anybody) runs it on the polling
            // thread, whatever the pool is doing.  If nothing on the object has ever started, no other future of it has ever
            // been polled and the queue is still claimable, then nobody has run the queue since the operation was
            // scheduled: it was claimable at every poll of this future, and the poll left it alone.
            if matches!(hr.kind, Kind::FutureDesync | Kind::FutureSync) && r.start.is_none() && hr.resolved_at.is_none() && !hr.sync_wait {
                if let Some(o) = r.obj {
                    let peek = facts.queue_peeks.iter().find(|p| p.0 == o).and_then(|p| p.1);
                    let claimable = matches!(peek, Some((1, _, _))) || matches!(peek, Some((0, n, _)) if n > 0);
                    let polled_after_scheduling = hr.first_poll.map_or(false, |p| r.ret.map_or(false, |x| p > x));
                    let nothing_ever_ran = !ops.iter().any(|x| x.obj == Some(o) && x.start.is_some());
                    let nobody_else_polled = !world.hrec.iter().enumerate().any(|(h2, x)| h2 != h && x.polls > 0 && x.op.map_or(false, |id| ops[id as usize].obj == Some(o)));
                    // (jobs that hold the queue without an operation having started: the slot of another future_sync, an `after` still waiting for its
                    // future, a suspension, a pipe's poll)
                    let pipes_on_o = world.streams.iter().any(|st| st.obj == Some(o)) || ops.iter().any(|x| x.obj == Some(o) && x.id != opid && matches!(x.kind, Kind::FutureSync | Kind::After | Kind::Suspend | Kind::Pipe | Kind::PipeIn) && x.inv.is_some());
                    if claimable && polled_after_scheduling && nothing_ever_ran && nobody_else_polled && !pipes_on_o && !world.objs[o].panic_injected && matches!(task_state(Some(t)), Some(TState::Blocked(Wait::Park))) {
                        let prop = if hr.kind == Kind::FutureSync { "C08" } else { "C07" };
                        v(out, prop, "poll_left_claimable_queue_alone", &[opid], hr.first_poll.unwrap_or(0), format!("task {} awaits handle {} of {} {} on object {}: nothing has ever run on that object and its queue (state/len/waiters {:?}) has been waiting to be run since the operation was scheduled, yet polling the future did not run it on the polling thread: {}", t, h, r.tag, opid, o, peek, where_));
                        props_found += 1;
                    }
                }
            }
            // one context, no pool thread: whatever it awaits it runs itself, so an await that makes no progress is a
            // violation unless the operation is legitimately suspended (gate closed) or held by an unreleased suspension
            if live == Live::SingleContext && matches!(hr.kind, Kind::FutureDesync | Kind::After | Kind::FutureSync) && r.fin.is_none() && hr.resolved_at.is_none() {
                let o = r.obj.unwrap_or(0);
                let held = world.hrec.iter().any(|s| s.kind == Kind::Suspend && s.op.map_or(false, |sid| ops[sid as usize].obj == Some(o)) && s.resolved_at.is_some() && s.resumed_at.is_none());
                let gate_closed = ops.iter().any(|x| x.obj == Some(o) && x.start.is_some() && x.fin.is_none() && x.waiting_gate.map_or(false, |g| !world.gates[g].open && x.waiting_gate_alt.map_or(true, |g2| !world.gates[g2].open)));
                if !held && !gate_closed {
                    let qstate = facts.queue_peeks.iter().find(|p| p.0 == o).and_then(|p| p.1).map(|p| p.0);
                    let prop = if hr.kind == Kind::FutureSync { "C08" } else { "C07" };
                    v(out, prop, "awaiting_made_no_progress", &[opid], 0, format!("the only context awaits handle {} of {} {} on object {} (queue state tag {:?}) with no pool thread, and nothing runs the queue: {}", h, r.tag, opid, o, qstate, where_));
                    let resumed = world.hrec.iter().any(|s| s.kind == Kind::Suspend && s.op.map_or(false, |sid| ops[sid as usize].obj == Some(o)) && s.resumed_at.is_some());
                    if resumed && matches!(qstate, Some(3) | Some(4) | Some(5)) {
                        v(out, "C06", "resume_did_not_restart_queue", &[opid], 0, format!("object {} was suspended and resumed, but its queue is still parked (state tag {:?}) and nothing runs what is queued behind the suspension: {}", o, qstate, where_));
                    }
                    props_found += 1;
                }
            }
            if hr.kind == Kind::Suspend && hr.resolved_at.is_none() {
                let o = r.obj.unwrap_or(0);
                let earlier_all_done = ops.iter().filter(|a| a.obj == Some(o) && a.kind.ordered() && a.ret.map_or(false, |x| r.inv.map_or(false, |i| x < i))).all(|a| a.fin.is_some() || (a.kind == Kind::FutureSync));
                if earlier_all_done {
                    v(out, "C13", "suspend_never_resolved", &[opid], 0, format!("task {} awaits suspend {} whose predecessors have all finished: {}", t, opid, where_));
                    props_found += 1;
                }
            }
        }
    }
    // the same for a future of another object awaited from inside a job (no handle: the job's own poll polls it, at once)
    for r in ops.iter().filter(|r| r.nested_in.is_some() && matches!(r.kind, Kind::FutureDesync | Kind::FutureSync) && matches!(r.outcome, CallOutcome::Returned(_)) && r.start.is_none() && r.fin.is_none()) {
        let parent = &ops[r.nested_in.unwrap() as usize];
        let Some(o) = r.obj else { continue };
        if parent.start.is_none() || parent.fin.is_some() || world.objs[o].panic_injected {
            continue;
        }
        let peek = facts.queue_peeks.iter().find(|p| p.0 == o).and_then(|p| p.1);
        let claimable = matches!(peek, Some((1, _, _))) || matches!(peek, Some((0, n, _)) if n > 0);
        let nothing_ever_ran = !ops.iter().any(|x| x.obj == Some(o) && x.start.is_some());
        let nobody_else_polled = !world.hrec.iter().any(|x| x.polls > 0 && x.op.map_or(false, |id| ops[id as usize].obj == Some(o)));
        let holders = world.streams.iter().any(|st| st.obj == Some(o)) || ops.iter().any(|x| x.obj == Some(o) && x.id != r.id && matches!(x.kind, Kind::FutureSync | Kind::After | Kind::Suspend | Kind::Pipe | Kind::PipeIn) && x.inv.is_some());
        let other_nested = ops.iter().any(|x| x.obj == Some(o) && x.id != r.id && x.nested_in.is_some() && matches!(x.kind, Kind::FutureDesync | Kind::FutureSync) && x.inv.is_some());
        if claimable && nothing_ever_ran && nobody_else_polled && !holders && !other_nested {
            let prop = if r.kind == Kind::FutureSync { "C08" } else { "C07" };
            v(out, prop, "poll_left_claimable_queue_alone", &[r.id], r.ret.unwrap_or(0), format!("{} {} on object {} is awaited from inside {} {}: nothing has ever run on object {} and its queue (state/len/waiters {:?}) has been waiting to be run since the operation was scheduled, yet polling the future did not run it on the polling thread: {}", r.tag, r.id, o, parent.tag, parent.id, o, peek, where_));
            props_found += 1;
        }
    }
    // pipe consumers
    for (oi, os) in world.outs.iter().enumerate() {
        if let Some(t) = os.waiting {
            v(out, "C12", "consumer_never_woken", &[], 0, format!("task {} waits on pipe output {} after the input has ended: {}", t, oi, where_));
            props_found += 1;
        }
    }
    for r in ops.iter().filter(|r| matches!(r.kind, Kind::PipeIn | Kind::Pipe) && r.outcome == CallOutcome::InCall) {
        let prop = if r.kind == Kind::PipeIn { "C11" } else { "C12" };
        v(out, prop, "pipe_call_never_returned", &[r.id], 0, format!("{} {} did not return: {}", r.tag, r.id, where_));
        props_found += 1;
    }
    if props_found == 0 && !verdict.ambiguous_hang {
        verdict.ambiguous_hang = true;
    }
}
