#!/bin/bash
# C14: (1) canary checks inside the coroutine simulator, (2) the deciding step for real undefined behaviour:
# fixed programs over the safe API interpreted by Miri on the UNSHIMMED crate under its seeded scheduler.
# usage: run.sh <quick|thorough> <desim binary> [extra desim args]      or: run.sh replay <file>
VERIF="$(cd "$(dirname "${BASH_SOURCE[0]}")/.." && pwd)"
REPO="${VERIF_REPO:-/repo}"; REPO="$(cd "$REPO" && pwd)"
if [ "$REPO" = "/repo" ]; then KEY=main; else KEY="alt-$(echo -n "$REPO" | md5sum | cut -c1-10)"; fi
TROOT="${VERIF_TARGET_ROOT:-$VERIF/target}"
WS="$TROOT/miri-ws-$KEY"; export CARGO_TARGET_DIR="$TROOT/miri-build-$KEY"; export CARGO_NET_OFFLINE=true
mkdir -p "$WS"
sed -e "s#@REPO@#$REPO#g" -e "s#@VERIF@#$VERIF#g" "$VERIF/miri/Cargo.toml.in" > "$WS/Cargo.toml.new"
cmp -s "$WS/Cargo.toml.new" "$WS/Cargo.toml" 2>/dev/null || mv "$WS/Cargo.toml.new" "$WS/Cargo.toml"; rm -f "$WS/Cargo.toml.new"
[ -f "$WS/Cargo.lock" ] || cp "$REPO/Cargo.lock" "$WS/Cargo.lock"
BASEFLAGS="-Zmiri-ignore-leaks -Zmiri-disable-isolation"
PROGRAMS="sync_borrow try_sync_borrow future_sync_borrow_drop_mid drop_running drop_suspended drop_from_job pipe_in_drop nested_sync future_await sync_while_parked_in_drain drop_self_waking late_waker_after_drop future_sync_panics sync_steal_pool0 sync_panics_pool0 pipe_out_drop_mid"
VROOT="${DESIM_VERIF_ROOT:-$VERIF}"

miri_run() { # program flags -> output on stdout
  ( cd "$WS" && MIRIFLAGS="$BASEFLAGS $2" timeout 3000 cargo +nightly miri run --offline -- "$1" 2>&1 )
}

if [ "$1" = "replay" ]; then
  F="$2"
  PROG="$(python3 -c "import json;print(json.load(open('$F'))['miri_program'])")"
  SEED="$(python3 -c "import json;print(json.load(open('$F'))['miri_seed'])")"
  RATE="$(python3 -c "import json;print(json.load(open('$F'))['preemption_rate'])")"
  OUT="$(miri_run "$PROG" "-Zmiri-seed=$SEED -Zmiri-preemption-rate=$RATE")"
  echo "$OUT" | tail -30
  if echo "$OUT" | grep -q "Undefined Behavior"; then echo "VIOLATION property=C14 replay=$F"; exit 1; fi
  echo "NOT REPRODUCED"; exit 2
fi

TIER="$1"; BIN="$2"; shift 2
T0=$(date +%s.%N)
# ---- part 1: canaries in the coroutine simulator (closures / captures / value touched outside their scope)
"$BIN" check --prop C14 --tier "$TIER" --verif-root "$VROOT" ${VERIF_SEED:+--seed "$VERIF_SEED"} "$@"
RC1=$?
[ $RC1 -eq 2 ] && { echo "HARNESS-ERROR canary part failed"; exit 2; }
# ---- part 2: Miri
SEED="${VERIF_SEED:-20260924}"; BASE=$(( SEED % 100000 ))
if [ "$TIER" = "thorough" ]; then N=384; RATES="0.05 0.2"; else N=20; RATES="0.1"; fi
( cd "$WS" && cargo +nightly miri setup --offline >/dev/null 2>&1; MIRIFLAGS="$BASEFLAGS" cargo +nightly miri run --offline -- sync_borrow >/dev/null 2>&1 ) || { echo "HARNESS-ERROR miri cannot build or run the programs"; ( cd "$WS" && MIRIFLAGS="$BASEFLAGS" cargo +nightly miri run --offline -- sync_borrow 2>&1 | tail -20 ); exit 2; }
mkdir -p "$VROOT/replays/C14" "$TROOT/miri-logs"
RUNS=0; UB=0; OTHER=0; VIOL_FILES=""
declare -A PER
for P in $PROGRAMS; do
  for R in $RATES; do
    LOG="$TROOT/miri-logs/$KEY-$P-$R.log"
    miri_run "$P" "-Zmiri-many-seeds=$BASE..$((BASE+N)) -Zmiri-preemption-rate=$R" > "$LOG"
    RUNS=$((RUNS+N)); PER[$P]=$(( ${PER[$P]:-0} + N ))
    if grep -q "Undefined Behavior" "$LOG"; then
      # find the failing seed by running seeds one at a time
      for S in $(seq $BASE $((BASE+N-1))); do
        O="$(miri_run "$P" "-Zmiri-seed=$S -Zmiri-preemption-rate=$R")"
        if echo "$O" | grep -q "Undefined Behavior"; then
          F="$VROOT/replays/C14/miri-$P-$S.json"
          MSG="$(echo "$O" | grep -m1 -A3 "Undefined Behavior" | tr '\n' ' ' | cut -c1-600)"
          python3 - "$F" "$P" "$S" "$R" "$MSG" <<'PY'
import json,sys
f,p,s,r,msg=sys.argv[1:6]
json.dump({"property":"C14","miri_program":p,"miri_seed":int(s),"preemption_rate":float(r),"flags":"-Zmiri-ignore-leaks -Zmiri-disable-isolation","message":msg,"how":"./check C14 --replay <this file>"},open(f,"w"),indent=1)
PY
          [ -z "$VIOL_FILES" ] && { echo "VIOLATION property=C14 replay=$F"; echo "  miri: program $P seed $S: $MSG"; }
          VIOL_FILES="$VIOL_FILES $F"; UB=$((UB+1)); break
        fi
      done
    elif grep -qE "error: deadlock|error:" "$LOG" || { [ "$P" != "future_sync_panics" ] && [ "$P" != "sync_panics_pool0" ] && grep -q "panicked at" "$LOG"; }; then
      # (future_sync_panics and sync_panics_pool0 panic on purpose and catch it)
      OTHER=$((OTHER+1))
    fi
  done
done
T1=$(date +%s.%N)
python3 - "$VROOT/evidence/C14.json" "$RUNS" "$UB" "$OTHER" "$N" "$RATES" "$BASE" "$T0" "$T1" "$PROGRAMS" <<'PY'
import json,sys
f,runs,ub,other,n,rates,base,t0,t1,progs=sys.argv[1:11]
e=json.load(open(f))
c=e["coverage"]
c["miri"]={"programs":progs.split(),"seeds_per_program_and_rate":int(n),"seed_range":[int(base),int(base)+int(n)],"preemption_rates":[float(x) for x in rates.split()],"executions":int(runs),"undefined_behaviour_reports":int(ub),
  "runs_ending_in_deadlock_or_panic_not_counted_for_C14":int(other),
  "what":"fixed programs over the safe public API, interpreted by Miri on the unshimmed crate (real std::sync, real threads) under its seeded scheduler; the oracle is Miri: use-after-free, double free, invalid dereference, data races, aliasing violations"}
c["evaluations"]=c.get("evaluations",0)+int(runs)
c["rule"]=c["rule"]+" PLUS Miri executions: one evaluation = one (program, Miri scheduler seed, preemption rate) run of the unshimmed crate."
e["violations"]=e.get("violations",0)+int(ub)
e["wall_s"]=float(t1)-float(t0)
json.dump(e,open(f,"w"),indent=1)
PY
echo "miri: $RUNS executions over $(echo $PROGRAMS | wc -w) programs, $UB with undefined behaviour, $OTHER program/rate batches ended in deadlock or panic (not C14)"
if [ $UB -gt 0 ] || [ $RC1 -eq 1 ]; then exit 1; fi
exit 0
