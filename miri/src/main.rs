//! Small fixed programs over the safe public API of desync, executed by Miri on the UNSHIMMED crate
//! (real std::sync, real threads) under its seeded scheduler.  The oracle is Miri itself:
//! use-after-free, double free, invalid dereference, data races, aliasing violations.
//! usage: miriprog <program name>

use desync::scheduler::{scheduler, TrySyncError};
use desync::{pipe_in, Desync};
use futures::channel::{mpsc, oneshot};
use futures::executor;
use futures::future::FutureExt;
use futures::task::{noop_waker, Context};
use futures::SinkExt;
use std::sync::Arc;
use std::thread;

/// heap payload: every operation touches the heap so that stale accesses are visible to Miri
struct Payload {
    items: Vec<Box<u64>>,
}

impl Payload {
    fn new() -> Payload {
        Payload { items: vec![Box::new(1), Box::new(2)] }
    }
    fn touch(&mut self, x: u64) {
        self.items.push(Box::new(x));
        if self.items.len() > 6 {
            self.items.remove(0);
        }
        let s: u64 = self.items.iter().map(|b| **b).sum();
        self.items[0] = Box::new(s);
    }
}

fn sync_borrow() {
    let d = Arc::new(Desync::new(Payload::new()));
    let mut handles = vec![];
    for t in 0..2u64 {
        let d = d.clone();
        handles.push(thread::spawn(move || {
            // the closure borrows a local of this frame: it must never be touched after sync returns
            let mut local = vec![Box::new(t)];
            for i in 0..3u64 {
                d.desync(move |p| p.touch(i));
                let r = d.sync(|p| {
                    p.touch(100 + i);
                    local.push(Box::new(i));
                    local.len()
                });
                assert!(r >= 2);
            }
            drop(local);
        }));
    }
    for h in handles {
        h.join().unwrap();
    }
    assert!(d.sync(|p| p.items.len()) > 0);
}

fn try_sync_borrow() {
    let d = Arc::new(Desync::new(Payload::new()));
    let d2 = d.clone();
    let h = thread::spawn(move || {
        for i in 0..4u64 {
            d2.desync(move |p| p.touch(i));
            let _ = d2.sync(|p| p.items.len());
        }
    });
    let mut local = vec![Box::new(0u64)];
    let mut oks = 0;
    for i in 0..6u64 {
        match d.try_sync(|p| {
            p.touch(i);
            local.push(Box::new(i));
        }) {
            Ok(()) => oks += 1,
            Err(TrySyncError::Busy) => thread::yield_now(),
        }
    }
    h.join().unwrap();
    assert!(local.len() == oks + 1);
}

fn future_sync_borrow_drop_mid() {
    let d = Arc::new(Desync::new(Payload::new()));
    let (tx, rx) = oneshot::channel::<()>();
    let owned = vec![Box::new(7u64)];
    {
        // the future holds `&d` for its whole life and owns heap data that is destroyed when it is dropped
        let mut fut = d
            .future_sync(move |p| {
                let mut owned = owned;
                async move {
                    p.touch(1);
                    owned.push(Box::new(1));
                    rx.await.ok();
                    p.touch(2);
                    owned.push(Box::new(2));
                    owned
                }
                .boxed()
            })
            .boxed();
        // later work on the same object, from another thread
        let d2 = d.clone();
        let h = thread::spawn(move || {
            d2.desync(|p| p.touch(50));
            d2.sync(|p| p.touch(51));
        });
        let waker = noop_waker();
        let mut cx = Context::from_waker(&waker);
        for _ in 0..3 {
            let _ = fut.poll_unpin(&mut cx);
            thread::yield_now();
        }
        // dropped in the middle of the operation: its slot is released, its captured data destroyed
        drop(fut);
        drop(tx);
        h.join().unwrap();
    }
    assert!(d.sync(|p| p.items.len()) > 0);
}

fn drop_running() {
    let d = Arc::new(Desync::new(Payload::new()));
    for i in 0..4u64 {
        d.desync(move |p| {
            p.touch(i);
            thread::yield_now();
            p.touch(i + 10);
        });
    }
    let d2 = d.clone();
    let h = thread::spawn(move || {
        d2.desync(|p| p.touch(99));
        drop(d2);
    });
    drop(d);
    h.join().unwrap();
}

fn drop_suspended() {
    let d = Desync::new(Payload::new());
    let (tx, rx) = oneshot::channel::<()>();
    d.future_desync(move |p| {
        async move {
            p.touch(1);
            rx.await.ok();
            p.touch(2);
        }
        .boxed()
    })
    .detach();
    d.desync(|p| p.touch(3));
    let h = thread::spawn(move || {
        thread::yield_now();
        tx.send(()).ok();
    });
    drop(d);
    h.join().unwrap();
}

fn drop_from_job() {
    let a = Arc::new(Desync::new(Payload::new()));
    let b = Arc::new(Desync::new(Payload::new()));
    for i in 0..3u64 {
        b.desync(move |p| p.touch(i));
    }
    let b2 = b.clone();
    a.desync(move |p| {
        p.touch(1);
        b2.desync(|p| p.touch(77));
        // possibly the last owner: the drop of b then runs on a pool thread inside a's job
        drop(b2);
    });
    drop(b);
    a.sync(|p| p.touch(2));
}

fn pipe_in_drop() {
    let d = Arc::new(Desync::new(Payload::new()));
    let (mut tx, rx) = mpsc::channel::<u64>(2);
    pipe_in(d.clone(), rx, |p, item| {
        async move {
            p.touch(item);
        }
        .boxed()
    });
    let h = thread::spawn(move || {
        executor::block_on(async {
            for i in 0..4u64 {
                if tx.send(i).await.is_err() {
                    break;
                }
            }
        });
    });
    d.sync(|p| p.touch(1000));
    drop(d);
    h.join().unwrap();
}

fn nested_sync() {
    let a = Arc::new(Desync::new(Payload::new()));
    let b = Arc::new(Desync::new(Payload::new()));
    let mut hs = vec![];
    for t in 0..2u64 {
        let (a, b) = (a.clone(), b.clone());
        hs.push(thread::spawn(move || {
            let b2 = b.clone();
            a.desync(move |p| {
                p.touch(t);
                let n = b2.sync(|q| {
                    q.touch(t + 5);
                    q.items.len()
                });
                p.touch(n as u64);
            });
            let mut local = Box::new(0u64);
            b.sync(|q| {
                q.touch(9);
                *local += 1;
            });
            a.sync(|p| p.touch(*local));
        }));
    }
    for h in hs {
        h.join().unwrap();
    }
}

fn future_await() {
    let d = Arc::new(Desync::new(Payload::new()));
    let d2 = d.clone();
    let h = thread::spawn(move || {
        for i in 0..3u64 {
            d2.desync(move |p| p.touch(i));
        }
    });
    let owned = vec![Box::new(1u64)];
    let v = executor::block_on(async {
        let a = d.future_desync(|p| {
            async move {
                p.touch(20);
                p.items.len()
            }
            .boxed()
        });
        let b = d
            .future_sync(move |p| {
                let mut l = owned;
                async move {
                    p.touch(21);
                    l.push(Box::new(2));
                    l.len()
                }
                .boxed()
            })
            .await
            .unwrap();
        a.await.unwrap() + b
    });
    assert!(v >= 2);
    h.join().unwrap();
}

/// no pool thread: the first sync drains the queue on its own thread and parks behind the suspended
/// operation; the second sync must wait, not take the parked queue over
fn sync_while_parked_in_drain() {
    scheduler().set_max_threads(0);
    scheduler().despawn_threads_if_overloaded();
    let d = Arc::new(Desync::new(Payload::new()));
    let (tx, rx) = oneshot::channel::<()>();
    d.future_desync(move |p| {
        async move {
            p.touch(1);
            rx.await.ok();
            p.touch(2);
        }
        .boxed()
    })
    .detach();
    let d2 = d.clone();
    let a = thread::spawn(move || d2.sync(|p| p.touch(3)));
    let d3 = d.clone();
    let b = thread::spawn(move || {
        thread::yield_now();
        d3.sync(|p| p.touch(4))
    });
    let d4 = d.clone();
    let c = thread::spawn(move || {
        thread::yield_now();
        drop(d4);
    });
    for _ in 0..4 {
        thread::yield_now();
    }
    tx.send(()).ok();
    a.join().unwrap();
    b.join().unwrap();
    c.join().unwrap();
    assert!(d.sync(|p| p.items.len()) > 0);
}

/// A future that wakes itself in the middle of its poll and still returns Pending (`yield_now` style).
struct YieldNow(u32);
impl std::future::Future for YieldNow {
    type Output = ();
    fn poll(mut self: std::pin::Pin<&mut Self>, cx: &mut Context<'_>) -> std::task::Poll<()> {
        if self.0 == 0 {
            std::task::Poll::Ready(())
        } else {
            self.0 -= 1;
            cx.waker().wake_by_ref();
            std::task::Poll::Pending
        }
    }
}

/// The object is dropped while an operation holding `&mut T` keeps waking itself: the runner finds the queue woken while
/// it was running it and must neither lose the operation's place nor let the freeing job overtake it.
fn drop_self_waking() {
    let d = Desync::new(Payload::new());
    d.future_desync(move |p| {
        async move {
            p.touch(1);
            YieldNow(2).await;
            p.touch(2);
            YieldNow(1).await;
            p.touch(3);
        }
        .boxed()
    })
    .detach();
    d.desync(|p| p.touch(4));
    let f = d.future_desync(move |p| {
        async move {
            YieldNow(1).await;
            p.touch(5);
            6u64
        }
        .boxed()
    });
    let h = thread::spawn(move || {
        let mut f = f;
        let w = noop_waker();
        let mut cx = Context::from_waker(&w);
        // one poll from outside (may steal the queue), then the future is abandoned
        let _ = f.poll_unpin(&mut cx);
        thread::yield_now();
        drop(f);
    });
    thread::yield_now();
    drop(d);
    h.join().unwrap();
}

/// An operation waits for whichever of two events comes first; the loser keeps a waker of the operation and fires it
/// later, when the operation (and perhaps the object) is long gone.
fn late_waker_after_drop() {
    let d = Desync::new(Payload::new());
    let (tx1, rx1) = oneshot::channel::<()>();
    let (tx2, rx2) = oneshot::channel::<()>();
    d.future_desync(move |p| {
        async move {
            p.touch(1);
            futures::future::select(rx1, rx2).await;
            p.touch(2);
        }
        .boxed()
    })
    .detach();
    d.desync(|p| p.touch(3));
    let h1 = thread::spawn(move || {
        tx1.send(()).ok();
    });
    let h2 = thread::spawn(move || {
        thread::yield_now();
        thread::yield_now();
        tx2.send(()).ok();
    });
    thread::yield_now();
    drop(d);
    h1.join().unwrap();
    h2.join().unwrap();
}

/// The future passed to future_sync panics in the awaiting task: the queue must end up refusing further work (and nothing
/// may be freed twice or touched after the fact on the way), whoever happens to be running the queue at that moment.
fn future_sync_panics() {
    use std::panic::{catch_unwind, AssertUnwindSafe};
    let d = Arc::new(Desync::new(Payload::new()));
    // keep the queue busy so that the slot is reached through different runners in different schedules
    d.desync(|p| p.touch(1));
    let d2 = d.clone();
    let waiter = thread::spawn(move || {
        let r = catch_unwind(AssertUnwindSafe(|| d2.sync(|p| p.touch(2))));
        let _ = r;
    });
    let r = catch_unwind(AssertUnwindSafe(|| {
        executor::block_on(d.future_sync(|p| {
            async move {
                p.touch(3);
                if p.items.len() > 0 {
                    panic!("deliberate panic inside a future_sync future");
                }
            }
            .boxed()
        }))
    }));
    assert!(r.is_err());
    // every later scheduling attempt is refused loudly
    let later = catch_unwind(AssertUnwindSafe(|| d.desync(|p| p.touch(4))));
    assert!(later.is_err());
    let later = catch_unwind(AssertUnwindSafe(|| d.sync(|p| p.touch(5))));
    assert!(later.is_err());
    waiter.join().ok();
    // the owner goes away while unwinding would: the panicked object must not be waited for
    let gone = catch_unwind(AssertUnwindSafe(move || drop(d)));
    let _ = gone;
}

/// No pool thread: callers carry all the work, and a caller waiting inside `sync` takes the queue over and runs jobs that
/// borrow ANOTHER caller's stack frame.  Such a job must be finished (or never started) by the time its owner's `sync` returns.
fn sync_steal_pool0() {
    scheduler().set_max_threads(0);
    scheduler().despawn_threads_if_overloaded();
    let d = Arc::new(Desync::new(Payload::new()));
    let mut hs = vec![];
    for t in 0..3u64 {
        let d = d.clone();
        hs.push(thread::spawn(move || {
            let mut local = vec![Box::new(t)];
            for i in 0..1u64 {
                d.desync(move |p| p.touch(i));
                let n = d.sync(|p| {
                    p.touch(10 * t + i);
                    local.push(Box::new(i));
                    local.len()
                });
                assert!(n >= 2);
                match d.try_sync(|p| {
                    local.push(Box::new(7));
                    p.items.len()
                }) {
                    Ok(n) => assert!(n > 0),
                    Err(TrySyncError::Busy) => {}
                }
            }
            drop(local);
        }));
    }
    for h in hs {
        h.join().unwrap();
    }
    assert!(d.sync(|p| p.items.len()) > 0);
}

/// No pool thread: a `sync` closure panics, possibly while it is being run by ANOTHER caller that took the queue over from
/// inside its own `sync`.  Frames unwind while jobs that borrow them may still sit in the dead queue: nothing borrowed from
/// any of them may be touched afterwards, and owners going away afterwards must neither run the dead queue nor free the
/// value twice.  (A caller that was already waiting when the queue died is not owed a return by any property: the main
/// thread therefore does not join, it waits a bounded number of yields.)
fn sync_panics_pool0() {
    use std::panic::{catch_unwind, AssertUnwindSafe};
    use std::sync::atomic::{AtomicUsize, Ordering};
    scheduler().set_max_threads(0);
    scheduler().despawn_threads_if_overloaded();
    let d = Arc::new(Desync::new(Payload::new()));
    let done = Arc::new(AtomicUsize::new(0));
    d.desync(|p| p.touch(1));
    for t in 0..3u64 {
        let d = d.clone();
        let done = done.clone();
        thread::spawn(move || {
            let mut local = vec![Box::new(t)];
            let r = catch_unwind(AssertUnwindSafe(|| {
                d.sync(|p| {
                    p.touch(t);
                    local.push(Box::new(1));
                    if t == 1 {
                        panic!("deliberate panic inside a sync closure");
                    }
                    local.len()
                })
            }));
            let _ = r;
            drop(local);
            let later = catch_unwind(AssertUnwindSafe(|| d.desync(|p| p.touch(9))));
            let _ = later;
            let gone = catch_unwind(AssertUnwindSafe(move || drop(d)));
            let _ = gone;
            done.fetch_add(1, Ordering::SeqCst);
        });
    }
    for _ in 0..400 {
        if done.load(Ordering::SeqCst) == 3 {
            break;
        }
        thread::yield_now();
    }
    let gone = catch_unwind(AssertUnwindSafe(move || drop(d)));
    let _ = gone;
}

/// `pipe`: the output stream (which carries the pipe's strong reference) is dropped while items are being processed, the
/// caller's own owner goes at about the same time: the value is freed by whoever turns out to be last (possibly the
/// library's own reference chute), exactly once, and never under the feet of an item's processing future.
fn pipe_out_drop_mid() {
    use futures::StreamExt;
    let d = Arc::new(Desync::new(Payload::new()));
    let (mut tx, rx) = mpsc::channel::<u64>(4);
    let mut out = desync::pipe(d.clone(), rx, |p, item: u64| {
        async move {
            p.touch(item);
            YieldNow(1).await;
            p.touch(item + 1);
            Box::new(item)
        }
        .boxed()
    });
    out.set_backpressure_depth(2);
    let h = thread::spawn(move || {
        executor::block_on(async {
            for i in 0..5u64 {
                if tx.send(i).await.is_err() {
                    break;
                }
            }
        });
    });
    let first = executor::block_on(out.next());
    assert!(first.map(|b| *b) == Some(0));
    let d2 = d.clone();
    let dropper = thread::spawn(move || drop(d2));
    drop(d);
    drop(out);
    dropper.join().unwrap();
    h.join().unwrap();
}

fn main() {
    let prog = std::env::args().nth(1).unwrap_or_default();
    // a small pool keeps the thread count (and Miri's run time) down without changing the code paths
    scheduler().set_max_threads(2);
    match prog.as_str() {
        "sync_borrow" => sync_borrow(),
        "try_sync_borrow" => try_sync_borrow(),
        "future_sync_borrow_drop_mid" => future_sync_borrow_drop_mid(),
        "drop_running" => drop_running(),
        "drop_suspended" => drop_suspended(),
        "drop_from_job" => drop_from_job(),
        "pipe_in_drop" => pipe_in_drop(),
        "nested_sync" => nested_sync(),
        "future_await" => future_await(),
        "sync_while_parked_in_drain" => sync_while_parked_in_drain(),
        "drop_self_waking" => drop_self_waking(),
        "late_waker_after_drop" => late_waker_after_drop(),
        "future_sync_panics" => future_sync_panics(),
        "sync_steal_pool0" => sync_steal_pool0(),
        "sync_panics_pool0" => sync_panics_pool0(),
        "pipe_out_drop_mid" => pipe_out_drop_mid(),
        other => {
            eprintln!("unknown program {:?}", other);
            std::process::exit(3);
        }
    }
    println!("done {}", prog);
}
