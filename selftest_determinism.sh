#!/bin/bash
# Determinism self-test: every case is executed twice from its seed and a third time from its recorded
# sparse schedule; event logs, schedule signatures and step counts must agree.  The whole batch is run
# with 16 worker processes and again with 3: the order-independent digests must be equal.
# usage: selftest_determinism.sh [runs per family, default 2000] [properties...]
VERIF="$(cd "$(dirname "${BASH_SOURCE[0]}")" && pwd)"
RUNS="${1:-2000}"; shift
PROPS="${@:-C01 C03 C04 C05 C06 C08 C09 C10 C11 C12 C13 C15 C16 C17}"
BIN="$("$VERIF/build.sh" /repo 2>/dev/null | tail -1)"
FAIL=0
for P in $PROPS; do
  for N in 16 3; do
    TOT=0; MIS=0; CASES=0
    for i in $(seq 0 $((N-1))); do "$BIN" determinism --prop $P --runs $RUNS --worker $i --of $N > /tmp/det-$P-$N-$i.out 2>&1 & done; wait
    for i in $(seq 0 $((N-1))); do
      L="$(grep '^DETERMINISM' /tmp/det-$P-$N-$i.out)"
      [ -z "$L" ] && { echo "worker $i of $N for $P produced no result"; FAIL=1; continue; }
      M=$(echo "$L" | sed 's/.*mismatches=\([0-9]*\).*/\1/'); C=$(echo "$L" | sed 's/.*cases=\([0-9]*\).*/\1/'); D=$(echo "$L" | sed 's/.*digest=\([0-9a-f]*\).*/\1/')
      MIS=$((MIS+M)); CASES=$((CASES+C)); TOT=$(python3 -c "print((0x$D + $TOT) % (1<<64))")
    done
    eval "TOT_$N=$TOT"; echo "$P: $N processes: $CASES cases x 3 executions, $MIS mismatches, digest $(printf '%016x' $TOT)"
    [ "$MIS" != "0" ] && FAIL=1
    rm -f /tmp/det-$P-$N-*.out
  done
  [ "$TOT_16" != "$TOT_3" ] && { echo "$P: digests differ between 16 and 3 processes"; FAIL=1; }
done
[ $FAIL = 0 ] && echo "DETERMINISM OK" || echo "DETERMINISM FAILED"
exit $FAIL
