#!/bin/bash
# False-alarm self-test: each patch in /verif/benign is a behaviour-preserving edit of the library (extra notifications,
# a slower but equivalent path, a different but unpromised choice).  Every property's quick check must stay at exit 0 on it.
# usage: selftest_benign.sh [scale=0.1] [name filter] [workers=16]
VERIF="$(cd "$(dirname "${BASH_SOURCE[0]}")" && pwd)"
SCALE="${1:-0.1}"; FILTER="${2:-}"; WORKERS="${3:-16}"
PROPS="${BENIGN_PROPS:-C01 C02 C03 C04 C05 C06 C07 C08 C09 C10 C11 C12 C13 C15 C16 C17}"
FAIL=0
for PATCH in "$VERIF"/benign/B*.patch; do
  NAME="$(basename "$PATCH" .patch)"
  [ -n "$FILTER" ] && [[ "$NAME" != *$FILTER* ]] && continue
  WT="/tmp/bn-$NAME-$$"
  git -C /repo worktree remove --force "$WT" >/dev/null 2>&1
  git -C /repo worktree add -f "$WT" HEAD >/dev/null 2>&1 || { echo "worktree failed"; exit 2; }
  if ! git -C "$WT" apply "$PATCH"; then echo "[$NAME] patch does not apply"; git -C /repo worktree remove --force "$WT"; FAIL=1; continue; fi
  BIN="$("$VERIF/build.sh" "$WT" 2>/tmp/bn-$NAME-$$.build.log | tail -1)"
  if [ ! -x "$BIN" ]; then echo "[$NAME] build failed"; tail -20 /tmp/bn-$NAME-$$.build.log; FAIL=1; else
    VR="/tmp/vr-bn-$NAME-$$"; rm -rf "$VR"; mkdir -p "$VR"; cp "$VERIF/known_findings.json" "$VR/"; mkdir -p "$VR/findings"; cp "$VERIF"/findings/* "$VR/findings/" 2>/dev/null
    BAD=""
    for P in $PROPS; do
      OUT="$("$BIN" check --prop "$P" --tier quick --scale "$SCALE" --workers "$WORKERS" --minimise-secs 10 --verif-root "$VR" 2>/dev/null)"; RC=$?
      if [ $RC -ne 0 ]; then BAD="$BAD $P(rc=$RC)"; echo "$OUT" | grep -E "^VIOLATION|^  C[0-9]+ \[|HARNESS|CRASH" | cut -c1-300 | sed "s/^/      [$NAME] /"; fi
    done
    if [ -z "$BAD" ]; then echo "[$NAME] quiet on all properties"; else echo "[$NAME] ALARM:$BAD"; FAIL=1; fi
  fi
  KEY="alt-$(echo -n "$WT" | md5sum | cut -c1-10)"
  rm -rf "$VERIF/target/build-$KEY" "$VERIF/target/ws-$KEY" "$VR"
  git -C /repo worktree remove --force "$WT" >/dev/null 2>&1
done
exit $FAIL
