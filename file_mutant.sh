#!/bin/bash
# usage: file_mutant.sh <seeded id> <agent worktree> <breaks: "C01,C02"> <needs text> <detected-by text>
SID="$1"; WT="$2"; BREAKS="$3"; NEEDS="$4"; DET="$5"; TAG="$(basename "$WT" | sed 's/mut-//')"
D="/verif/seeded/$SID"; mkdir -p "$D"
cp "$WT/mutant/patch.diff" "$D/patch.diff"; cp "$WT/mutant/demo.rs" "$D/demo.rs"; cp "$WT/mutant/README.md" "$D/agent_README.md" 2>/dev/null
RES="$(tail -1 /tmp/confirm-$TAG.out 2>/dev/null)"
python3 - "$SID" "$BREAKS" "$NEEDS" "$DET" "$RES" "$TAG" <<'PY'
import json,sys
sid,breaks,needs,det,res,tag=sys.argv[1:7]
meta={"id":sid,"breaks":breaks.split(','),"source":f"independent sub-agent given only the text of property {tag} and its own scratch worktree of /repo (nothing from /verif)",
 "needs_to_manifest":needs,
 "confirmed_by_me":{"how":"confirm_mutant.sh in the agent's scratch worktree: patch applied -> cargo nextest run --workspace --test-threads 8 (existing suite), then tests/mutant_demo.rs three times with the patch and three times with the patch reverted","result":res},
 "detected_by":det}
json.dump(meta,open(f"/verif/seeded/{sid}/meta.json","w"),indent=1)
PY
echo "filed $SID"
