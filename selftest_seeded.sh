#!/bin/bash
# Re-runs the checks named in seeded/<id>/meta.json ("breaks") against every filed seeded change and reports how quickly
# each is found (runs needed for the first 16 violations): usage selftest_seeded.sh [scale=0.25] [filter] [workers]
VERIF="$(cd "$(dirname "${BASH_SOURCE[0]}")" && pwd)"
SCALE="${1:-0.25}"; FILTER="${2:-}"; export DESIM_WORKERS="${3:-16}"
for D in "$VERIF"/seeded/S*/; do
  SID="$(basename "$D")"
  [ -n "$FILTER" ] && [[ "$SID" != *$FILTER* ]] && continue
  PROPS="$(python3 -c "import json;print(' '.join(p for p in json.load(open('$D/meta.json'))['breaks'] if p!='C14'))")"
  [ -z "$PROPS" ] && PROPS="C14"
  "$VERIF/mutant_test.sh" "$SID" "$D/patch.diff" "$SCALE" $PROPS 2>&1 | grep -E "^\[|^ +property|^build failed|^patch does not apply|^worktree failed" | sed -E 's/^ +property (C[0-9]+) tier quick seed [0-9]+: ([0-9]+) runs .* ([0-9]+) violations.*/      \1: \3 violations in \2 runs/' 
done
