#!/usr/bin/env python3
"""Prepares a round of independent seeded-change agents: one scratch worktree of /repo per property under /tmp/<tag>-Cxx with
a TASK.md that contains only the property text, the rules, and the titles of ideas already filed (for ALL properties: round 7,
which listed only the ideas of the agent's own property, got the same idea back up to five times).
usage: new_round.py <tag>      (then start one agent per worktree: "Read /tmp/<tag>-Cxx/TASK.md and do exactly what it says")
Afterwards: round_tools/process_agent.sh Cxx [more properties]  (edit the tag inside), file_mutant.sh, git worktree remove."""
import json, glob, os, subprocess, sys
tag = sys.argv[1]
titles = []
for d in sorted(glob.glob('/verif/seeded/S*/')):
    name = os.path.basename(d.rstrip('/'))
    titles.append(name.split('-', 1)[1].replace('-', ' '))
props = [json.loads(l) for l in open('/verif/properties.jsonl')]
for p in props:
    pid = p['id']; wt = f'/tmp/{tag}-{pid}'
    subprocess.run(['git', '-C', '/repo', 'worktree', 'remove', '--force', wt], capture_output=True)
    r = subprocess.run(['git', '-C', '/repo', 'worktree', 'add', '-f', '--detach', wt, 'HEAD'], capture_output=True, text=True)
    assert r.returncode == 0, r.stderr
    ideas = '\n'.join('- ' + t for t in titles)
    open(wt + '/TASK.md', 'w').write(f'''# Task

You are working in `{wt}`, a scratch git worktree of the Rust library Logicalshift/desync. Work only inside this directory.
Do not read or touch `/repo` or `/verif`. There is no network: always pass `--offline` to cargo. Do NOT use `git stash`
(the stash is shared by all worktrees): use `git diff -- src > p.diff; git apply -R p.diff; ...; git apply p.diff`.

The library is supposed to have this property ({pid}: {p['title']}):

> {p['statement']}

Produce ONE small, plausible-looking change to `src/` that breaks this property while the crate still compiles without new
warnings, the existing suite still passes (`cargo nextest run --workspace --no-fail-fast --test-threads 8 --offline`, twice;
`async_only_runs_once` and `panicking_panics_with_future_queues` are known flaky/failing), and the breakage needs something
specific to manifest (an interleaving, a fault at a particular point, a multi-step sequence, an unusual configuration, two
cooperating sites). Ideas that have ALREADY been proposed (for any property) and are NOT wanted again:

{ideas}

Deliverables in `{wt}/mutant/`: `patch.diff` (`git diff -- src`), `demo.rs` (integration test, copied to
`tests/mutant_demo.rs`; fails with the change 3/3, passes without 3/3, never hangs), `README.md`. Leave the change applied,
commit nothing, reply with a five-line summary.
''')
print('worktrees ready:', ' '.join(f'/tmp/{tag}-{p["id"]}' for p in props))
