#!/bin/bash
# usage: r7_process.sh Cxx [other props...]   -> /tmp/r7-out/Cxx.txt
P="$1"; shift; WT=/tmp/${ROUND_TAG:-r7}-$P; mkdir -p /tmp/r7-out
{
  echo "### $P"
  cp $WT/mutant/demo.rs $WT/tests/mutant_demo.rs
  /verif/confirm_mutant.sh $P $WT ${ROUND_TAG:-r7}-$P 2>&1 | tail -9 | tee /tmp/confirm-${ROUND_TAG:-r7}-$P.out
  ( cd $WT && git checkout -q -- src )
  /verif/mutant_test.sh ${ROUND_TAG:-r7}-$P $WT/mutant/patch.diff 0.25 $P "$@" 2>&1
} > /tmp/r7-out/$P.txt 2>&1
