#!/usr/bin/env python3
"""Prints the reach matrix (queue state x event kind) from evidence files: usage matrix.py [evidence dir]"""
import json,sys,glob,os
d=sys.argv[1] if len(sys.argv)>1 else os.path.join(os.path.dirname(os.path.abspath(__file__)),'evidence')
def find(o,k):
    if isinstance(o,dict):
        if k in o: return o[k]
        for v in o.values():
            r=find(v,k)
            if r is not None: return r
    if isinstance(o,list):
        for v in o:
            r=find(v,k)
            if r is not None: return r
states=['idle','pending','running','waiting_for_wake','waiting_for_unpark','waiting_for_poll','awoken_while_running','panicked']
tot={}; per={}
for f in sorted(glob.glob(d+'/C*.json')):
    rp=find(json.load(open(f)),'reach_probes') or {}
    for k,v in rp.items():
        if k.startswith('at_'):
            tot[k]=tot.get(k,0)+v
            if v: per.setdefault(k,[]).append(os.path.basename(f)[:3])
def split(k):
    for s in sorted(states,key=len,reverse=True):
        if k.endswith('_'+s): return k[3:-len(s)-1]
kinds=sorted({split(k) for k in tot if split(k)})
print('%-16s'%'event \\ state'+''.join('%11s'%s[:10] for s in states))
for kd in kinds:
    print('%-16s'%kd+''.join('%11d'%tot.get('at_%s_%s'%(kd,s),0) for s in states))
