#!/bin/bash
# usage: confirm_seeded.sh <seeded id>   (re-confirms a filed mutant from /verif/seeded/<id> in a fresh scratch worktree)
SID="$1"; WT="/tmp/cs-$SID"
git -C /repo worktree remove --force "$WT" >/dev/null 2>&1
git -C /repo worktree add -f "$WT" HEAD >/dev/null 2>&1 || exit 2
mkdir -p "$WT/mutant"; cp /verif/seeded/$SID/patch.diff "$WT/mutant/patch.diff"; cp /verif/seeded/$SID/demo.rs "$WT/mutant/demo.rs"; cp /verif/seeded/$SID/demo.rs "$WT/tests/mutant_demo.rs"
/verif/confirm_mutant.sh "$SID" "$WT" "$SID" 2>&1 | tail -8
git -C /repo worktree remove --force "$WT" >/dev/null 2>&1
